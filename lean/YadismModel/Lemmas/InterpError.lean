/-
Interpolation *error* of the basis of `Model/Interp.lean`: the Lebesgue-function bound
(`|I f − f| ≤ (1 + Λ)·(distance of f to the polynomials of degree ≤ d)`), a bound on the Lebesgue
function of a quasi-uniform grid that does not depend on the number of nodes, and (over `ℝ`) the
Taylor estimate of the distance.  Together: the interpolant of a smooth function converges to the
function as the grid is refined, at the rate `h^(d+1)`.
-/
import YadismModel.Lemmas.Interp
import Mathlib.Algebra.Order.BigOperators.Group.Finset
import Mathlib.Algebra.Order.BigOperators.Ring.Finset
import Mathlib.Tactic.Positivity
import Mathlib.Tactic.GCongr

set_option linter.unusedSectionVars false

namespace Yadism.Interp

open Polynomial

variable {K : Type} [Field K] [LinearOrder K] [IsStrictOrderedRing K]

/-- the Lebesgue function `Λ(t) = Σ_j |p_j(t)|` of the basis -/
def lebesgue (xs : Nat → K) (n d : Nat) (t : K) : K := ∑ j ∈ Finset.range n, |basis xs n d j t|

theorem lebesgue_nonneg (xs : Nat → K) (n d : Nat) (t : K) : 0 ≤ lebesgue xs n d t :=
  Finset.sum_nonneg fun _ _ => abs_nonneg _

/-- the interpolant is linear in the node values -/
theorem interpolant_sub (xs f g : Nat → K) (n d : Nat) (t : K) :
    interpolant xs f n d t - interpolant xs g n d t = interpolant xs (fun j => f j - g j) n d t := by
  unfold interpolant
  rw [sumUpTo_eq, sumUpTo_eq, sumUpTo_eq, ← Finset.sum_sub_distrib]
  apply Finset.sum_congr rfl
  intro j _
  ring

/-- node values bounded by `ε` *on the nodes whose basis function does not vanish at `t`* give an
interpolant bounded by `ε·Λ(t)` -/
theorem interpolant_abs_le (xs f : Nat → K) (n d : Nat) (t ε : K)
    (hf : ∀ j, j < n → basis xs n d j t ≠ 0 → |f j| ≤ ε) :
    |interpolant xs f n d t| ≤ ε * lebesgue xs n d t := by
  unfold interpolant lebesgue
  rw [sumUpTo_eq, Finset.mul_sum]
  refine le_trans (Finset.abs_sum_le_sum_abs _ _) (Finset.sum_le_sum ?_)
  intro j hj
  rw [abs_mul]
  by_cases hb : basis xs n d j t = 0
  · simp [hb]
  · exact mul_le_mul_of_nonneg_right (hf j (Finset.mem_range.mp hj) hb) (abs_nonneg _)

/-- every `t` inside the grid, above the first node, lies in exactly one half-open interval -/
theorem exists_interval (xs : Nat → K) (n : Nat) (t : K) (h0 : xs 0 < t) (ht1 : t ≤ xs (n - 1)) :
    ∃ i, i + 1 < n ∧ xs i < t ∧ t ≤ xs (i + 1) := by
  have hn0 : n - 1 ≠ 0 := by
    intro h; rw [h] at ht1; exact absurd (lt_of_lt_of_le h0 ht1) (lt_irrefl _)
  have hEx : ∃ m, m < n ∧ t ≤ xs m := ⟨n - 1, by omega, ht1⟩
  classical
  have hm : Nat.find hEx < n ∧ t ≤ xs (Nat.find hEx) := Nat.find_spec hEx
  have hm0 : Nat.find hEx ≠ 0 := by
    intro h
    rw [h] at hm
    exact absurd (lt_of_lt_of_le h0 hm.2) (lt_irrefl _)
  refine ⟨Nat.find hEx - 1, by omega, ?_, ?_⟩
  · by_contra hc
    have hle : t ≤ xs (Nat.find hEx - 1) := not_lt.mp hc
    have hmin := Nat.find_min hEx (m := Nat.find hEx - 1) (by omega)
    exact hmin ⟨by omega, hle⟩
  · have : Nat.find hEx - 1 + 1 = Nat.find hEx := by omega
    rw [this]; exact hm.2

section err
variable (xs : Nat → K) (hxs : StrictMono xs) (n d : Nat) (hd : 1 ≤ d) (hn : d + 1 ≤ n)
include hxs hd hn

/-- **Lebesgue bound**: if some polynomial `q` of degree ≤ the interpolation degree is within `ε`
of `f` at `t` and at the nodes that matter for `t`, the interpolant of `f` is within
`(1 + Λ(t))·ε` of `f(t)` -/
theorem interp_error_le (f : K → K) (q : K[X]) (hq : q.natDegree ≤ d) (t ε : K)
    (ht0 : xs 0 ≤ t) (ht1 : t ≤ xs (n - 1))
    (hnodes : ∀ j, j < n → basis xs n d j t ≠ 0 → |f (xs j) - q.eval (xs j)| ≤ ε)
    (hpt : |f t - q.eval t| ≤ ε) :
    |interpolant xs (fun j => f (xs j)) n d t - f t| ≤ (1 + lebesgue xs n d t) * ε := by
  have hrep := interpolant_reproduces xs hxs n d hd hn q hq t ht0 ht1
  have hsplit : interpolant xs (fun j => f (xs j)) n d t - f t
      = interpolant xs (fun j => f (xs j) - q.eval (xs j)) n d t - (f t - q.eval t) := by
    rw [← interpolant_sub, hrep]; ring
  rw [hsplit]
  have h1 := interpolant_abs_le xs (fun j => f (xs j) - q.eval (xs j)) n d t ε hnodes
  calc |interpolant xs (fun j => f (xs j) - q.eval (xs j)) n d t - (f t - q.eval t)|
      ≤ |interpolant xs (fun j => f (xs j) - q.eval (xs j)) n d t| + |f t - q.eval t| := abs_sub _ _
    _ ≤ ε * lebesgue xs n d t + ε := add_le_add h1 hpt
    _ = (1 + lebesgue xs n d t) * ε := by ring

/-- only the nodes of the block of `t`'s interval matter -/
theorem basis_ne_zero_in_block (i j : Nat) (hi : i + 1 < n) (t : K) (h1 : xs i < t) (h2 : t ≤ xs (i + 1))
    (hb : basis xs n d j t ≠ 0) : kminOf n d i ≤ j ∧ j ≤ kminOf n d i + d := by
  rw [basis_on_interval xs hxs n d hd hn i j hi t h1 h2] at hb
  by_cases h : inBlock n d i j = true
  · exact (inBlock_iff n d i j).mp h
  · simp [h] at hb

end err

/-! ## The Lebesgue function of a quasi-uniform grid -/

section quasi
variable (xs : Nat → K) (hxs : StrictMono xs)
include hxs

/-- nodes `a ≤ b` are at most `(b − a)·hmax` apart when every spacing in between is ≤ `hmax` -/
theorem span_le (hmax : K) (a : Nat) : ∀ m : Nat, (∀ s, a ≤ s → s < a + m → xs (s + 1) - xs s ≤ hmax) →
    xs (a + m) - xs a ≤ m * hmax := by
  intro m
  induction m with
  | zero => intro _; simp
  | succ m ih =>
    intro h
    have h1 := ih (fun s hs1 hs2 => h s hs1 (by omega))
    have h2 := h (a + m) (by omega) (by omega)
    have : xs (a + (m + 1)) - xs a = (xs (a + m + 1) - xs (a + m)) + (xs (a + m) - xs a) := by
      rw [← Nat.add_assoc]; ring
    rw [this]
    push_cast
    linarith

/-- distinct nodes are at least `hmin` apart when every spacing is ≥ `hmin` (between them) -/
theorem gap_ge (hmin : K) (_hmin0 : 0 ≤ hmin) (a : Nat) : ∀ m : Nat, 1 ≤ m →
    (∀ s, a ≤ s → s < a + m → hmin ≤ xs (s + 1) - xs s) → hmin ≤ xs (a + m) - xs a := by
  intro m hm h
  have h0 := h a (le_refl _) (by omega)
  have hmono : xs (a + 1) ≤ xs (a + m) := hxs.monotone (by omega)
  linarith

/-- **each Lagrange polynomial of a block is bounded by `(d·hmax/hmin)^(d+1)` on the span of the
block**, whatever the number of nodes of the grid -/
theorem lagrange_abs_le (kmin d j : Nat) (hj1 : kmin ≤ j) (hj2 : j ≤ kmin + d) (hmin hmax t : K)
    (hmin0 : 0 < hmin) (hd : 1 ≤ d)
    (hlo : ∀ s, kmin ≤ s → s < kmin + d → hmin ≤ xs (s + 1) - xs s)
    (hhi : ∀ s, kmin ≤ s → s < kmin + d → xs (s + 1) - xs s ≤ hmax)
    (ht1 : xs kmin ≤ t) (ht2 : t ≤ xs (kmin + d)) :
    |lagrange xs kmin d j t| ≤ ((d : K) * hmax / hmin) ^ (d + 1) := by
  have hminmax : hmin ≤ hmax := le_trans (hlo kmin (le_refl _) (by omega)) (hhi kmin (le_refl _) (by omega))
  have hmax0 : 0 < hmax := lt_of_lt_of_le hmin0 hminmax
  have hd0 : (1 : K) ≤ (d : K) := by exact_mod_cast hd
  have hR1 : 1 ≤ (d : K) * hmax / hmin := by
    rw [le_div_iff₀ hmin0]
    nlinarith
  unfold lagrange
  rw [prodUpTo_eq, Finset.abs_prod]
  calc ∏ s ∈ Finset.range (d + 1), |if kmin + s = j then (1 : K) else (t - xs (kmin + s)) / (xs j - xs (kmin + s))|
      ≤ ∏ _s ∈ Finset.range (d + 1), ((d : K) * hmax / hmin) := by
        apply Finset.prod_le_prod
        · intro s _; exact abs_nonneg _
        · intro s hs
          have hs' : s ≤ d := by have := Finset.mem_range.mp hs; omega
          by_cases h : kmin + s = j
          · simp [h, hR1]
          · simp only [h, if_false, abs_div]
            -- numerator: |t − x_s| ≤ span ≤ d·hmax
            have hspan : xs (kmin + d) - xs kmin ≤ d * hmax := span_le xs hxs hmax kmin d hhi
            have hxs1 : xs kmin ≤ xs (kmin + s) := hxs.monotone (by omega)
            have hxs2 : xs (kmin + s) ≤ xs (kmin + d) := hxs.monotone (by omega)
            have hnum : |t - xs (kmin + s)| ≤ d * hmax := by
              rw [abs_le]; constructor <;> linarith
            -- denominator: |x_j − x_s| ≥ hmin
            have hden : hmin ≤ |xs j - xs (kmin + s)| := by
              rcases Nat.lt_or_gt_of_ne h with hlt | hgt
              · -- kmin + s < j
                have := gap_ge xs hxs hmin (le_of_lt hmin0) (kmin + s) (j - (kmin + s)) (by omega)
                  (fun u hu1 hu2 => hlo u (by omega) (by omega))
                have e : kmin + s + (j - (kmin + s)) = j := by omega
                rw [e] at this
                exact le_trans this (le_abs_self _)
              · have := gap_ge xs hxs hmin (le_of_lt hmin0) j (kmin + s - j) (by omega)
                  (fun u hu1 hu2 => hlo u (by omega) (by omega))
                have e : j + (kmin + s - j) = kmin + s := by omega
                rw [e] at this
                rw [abs_sub_comm]
                exact le_trans this (le_abs_self _)
            have hden0 : 0 < |xs j - xs (kmin + s)| := lt_of_lt_of_le hmin0 hden
            rw [div_le_div_iff₀ hden0 hmin0]
            calc |t - xs (kmin + s)| * hmin ≤ (d * hmax) * hmin := by
                  exact mul_le_mul_of_nonneg_right hnum (le_of_lt hmin0)
              _ ≤ (d * hmax) * |xs j - xs (kmin + s)| := by
                  apply mul_le_mul_of_nonneg_left hden
                  positivity
    _ = ((d : K) * hmax / hmin) ^ (d + 1) := by
        rw [Finset.prod_const, Finset.card_range]

end quasi

section lebesgueBound
variable (xs : Nat → K) (hxs : StrictMono xs) (n d : Nat) (hd : 1 ≤ d) (hn : d + 1 ≤ n)
include hxs hd hn

/-- **the Lebesgue function of a quasi-uniform grid is bounded independently of its size**:
`Λ(t) ≤ (d+1)·(d·hmax/hmin)^(d+1)` for every `t` inside the grid (not on the first node) -/
theorem lebesgue_le (hmin hmax : K) (hmin0 : 0 < hmin)
    (hlo : ∀ s, s + 1 < n → hmin ≤ xs (s + 1) - xs s)
    (hhi : ∀ s, s + 1 < n → xs (s + 1) - xs s ≤ hmax)
    (i : Nat) (hi : i + 1 < n) (t : K) (h1 : xs i < t) (h2 : t ≤ xs (i + 1)) :
    lebesgue xs n d t ≤ ((d : K) + 1) * ((d : K) * hmax / hmin) ^ (d + 1) := by
  have hk := kminOf_spec n d i hd hn hi
  set k := kminOf n d i with hkdef
  have hterm : ∀ j ∈ Finset.range n, |basis xs n d j t|
      = if k ≤ j ∧ j ≤ k + d then |lagrange xs k d j t| else 0 := by
    intro j _
    rw [basis_on_interval xs hxs n d hd hn i j hi t h1 h2]
    by_cases hb : inBlock n d i j = true
    · have := (inBlock_iff n d i j).mp hb
      simp [hb, this, hkdef]
    · have : ¬ (k ≤ j ∧ j ≤ k + d) := fun h => hb ((inBlock_iff n d i j).mpr h)
      simp [hb, this]
  unfold lebesgue
  rw [Finset.sum_congr rfl hterm, ← Finset.sum_filter]
  have hfilter : (Finset.range n).filter (fun j => k ≤ j ∧ j ≤ k + d) = Finset.Ico k (k + d + 1) := by
    ext j
    simp only [Finset.mem_filter, Finset.mem_range, Finset.mem_Ico]
    omega
  rw [hfilter]
  have htk1 : xs k ≤ t := le_trans (hxs.monotone (by omega)) (le_of_lt h1)
  have htk2 : t ≤ xs (k + d) := le_trans h2 (hxs.monotone (by omega))
  calc ∑ j ∈ Finset.Ico k (k + d + 1), |lagrange xs k d j t|
      ≤ ∑ _j ∈ Finset.Ico k (k + d + 1), ((d : K) * hmax / hmin) ^ (d + 1) := by
        apply Finset.sum_le_sum
        intro j hj
        have hj' := Finset.mem_Ico.mp hj
        exact lagrange_abs_le xs hxs k d j hj'.1 (by omega) hmin hmax t hmin0 hd
          (fun s hs1 hs2 => hlo s (by omega)) (fun s hs1 hs2 => hhi s (by omega)) htk1 htk2
    _ = ((d : K) + 1) * ((d : K) * hmax / hmin) ^ (d + 1) := by
        rw [Finset.sum_const, Nat.card_Ico]
        have : k + d + 1 - k = d + 1 := by omega
        rw [this, nsmul_eq_mul]
        push_cast
        ring

end lebesgueBound

end Yadism.Interp
