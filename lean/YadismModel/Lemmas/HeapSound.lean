/-
Soundness of the static check of `Model/Heap.lean`: a program that passes `safe` never changes an
object that existed before it started, whatever the oracle (branches taken, values stored, objects
aliased).
-/
import YadismModel.Model.Heap

namespace Yadism.Heap

/-- the invariant: the old part of the heap is untouched and every name in `F` refers to a new object -/
def Inv (n0 : Nat) (h0 : Heap) (F : List String) (st : Env × Heap) : Prop :=
  n0 ≤ st.2.length ∧ (∀ l, l < n0 → st.2[l]? = h0[l]?) ∧
    (∀ v, v ∈ F → ∀ l, st.1.get? v = some l → n0 ≤ l)

theorem get?_set (e : Env) (v w : String) (l : Nat) :
    (e.set v l).get? w = if w = v then some l else e.get? w := rfl

theorem step_inv (orc : Oracle) (i : Nat) (n0 : Nat) (h0 : Heap) :
    ∀ (s : Stmt) (rest : List Stmt) (F : List String) (st : Env × Heap),
      Inv n0 h0 F st → safeFrom F (s :: rest) = true →
      ∃ F', Inv n0 h0 F' (step orc i s st) ∧ safeFrom F' rest = true := by
  intro s rest F st hinv hsafe
  obtain ⟨env, h⟩ := st
  obtain ⟨hlen, hold, hfresh⟩ := hinv
  simp only at hlen hold hfresh
  cases s with
  | copy dst src =>
    refine ⟨dst :: F, ?_, by simpa [safeFrom] using hsafe⟩
    have key : ∀ o : Obj, Inv n0 h0 (dst :: F) (env.set dst h.length, h ++ [o]) := by
      intro o
      refine ⟨by simp; omega, ?_, ?_⟩
      · intro l hl
        have : l < h.length := by omega
        simp only [List.getElem?_append_left this]
        exact hold l hl
      · intro v hv l hvl
        simp only [get?_set] at hvl
        by_cases hvd : v = dst
        · simp only [hvd, if_true, Option.some.injEq] at hvl; omega
        · simp only [hvd, if_false] at hvl
          rcases List.mem_cons.mp hv with h1 | h1
          · exact absurd h1 hvd
          · exact hfresh v h1 l hvl
    simp only [step]
    cases env.get? src with
    | none => exact key _
    | some l0 => exact key _
  | write base =>
    have hs : F.contains base = true ∧ safeFrom F rest = true := by
      simpa [safeFrom] using hsafe
    refine ⟨F, ?_, hs.2⟩
    have hmem : base ∈ F := by simpa using hs.1
    simp only [step]
    by_cases hr : orc.runs i = true
    · simp only [hr, Bool.not_true, Bool.false_eq_true, if_false]
      cases hb : env.get? base with
      | none => exact ⟨hlen, hold, hfresh⟩
      | some l0 =>
        have hl0 : n0 ≤ l0 := hfresh base hmem l0 hb
        refine ⟨by simpa [setAt] using hlen, ?_, hfresh⟩
        intro l hl
        have hne : l0 ≠ l := by omega
        simp only [setAt]
        rw [List.getElem?_set_ne hne]
        exact hold l hl
    · simp only [hr, Bool.not_false, if_true]
      exact ⟨hlen, hold, hfresh⟩
  | writeNested base =>
    simp [safeFrom] at hsafe
  | alias dst =>
    refine ⟨F.filter (· != dst), ?_, by simpa [safeFrom] using hsafe⟩
    simp only [step]
    by_cases hr : orc.runs i = true
    · simp only [hr, Bool.not_true, Bool.false_eq_true, if_false]
      refine ⟨hlen, hold, ?_⟩
      intro v hv l hvl
      have hv' := List.mem_filter.mp hv
      have hvd : v ≠ dst := by simpa using hv'.2
      simp only [get?_set, hvd, if_false] at hvl
      exact hfresh v hv'.1 l hvl
    · simp only [hr, Bool.not_false, if_true]
      refine ⟨hlen, hold, ?_⟩
      intro v hv l hvl
      exact hfresh v (List.mem_filter.mp hv).1 l hvl

theorem execFrom_inv (orc : Oracle) (n0 : Nat) (h0 : Heap) :
    ∀ (prog : List Stmt) (i : Nat) (F : List String) (st : Env × Heap),
      Inv n0 h0 F st → safeFrom F prog = true → ∃ F', Inv n0 h0 F' (execFrom orc i prog st) := by
  intro prog
  induction prog with
  | nil => intro i F st hinv _; exact ⟨F, hinv⟩
  | cons s rest ih =>
    intro i F st hinv hsafe
    obtain ⟨F', hinv', hsafe'⟩ := step_inv orc i n0 h0 s rest F st hinv hsafe
    exact ih (i + 1) F' _ hinv' hsafe'

/-- **soundness of the static check**: a program that passes `safe`, started in any environment on
any heap, leaves every object that existed before untouched — for every oracle -/
theorem safe_preserves (orc : Oracle) (prog : List Stmt) (env : Env) (h0 : Heap) (hs : safe prog = true) :
    ∀ l, l < h0.length → (exec orc prog (env, h0)).2[l]? = h0[l]? := by
  have hinv : Inv h0.length h0 [] (env, h0) :=
    ⟨Nat.le_refl _, fun _ _ => rfl, fun v hv => by simp at hv⟩
  obtain ⟨F', _, hold, _⟩ := execFrom_inv orc h0.length h0 prog 0 [] (env, h0) hinv hs
  exact hold

end Yadism.Heap
