/-
Soundness of the static check of `Model/Heap.lean`: a program that passes `safe` never changes an
object that existed before it started, whatever the oracle (branches taken, values stored, objects
aliased).
-/
import YadismModel.Model.Heap

namespace Yadism.Heap

/-- the invariant: the old part of the heap is untouched and every name in `F` refers to a new object -/
def Inv (n0 : Nat) (h0 : Heap) (F : List String) (st : Env × Heap) : Prop :=
  n0 ≤ st.2.length ∧ (∀ l, l < n0 → st.2[l]? = h0[l]?) ∧
    (∀ v, v ∈ F → ∀ l, st.1.get? v = some l → n0 ≤ l)

theorem get?_set (e : Env) (v w : String) (l : Nat) :
    (e.set v l).get? w = if w = v then some l else e.get? w := rfl

theorem step_inv (orc : Oracle) (i : Nat) (n0 : Nat) (h0 : Heap) :
    ∀ (s : Stmt) (rest : List Stmt) (F : List String) (st : Env × Heap),
      Inv n0 h0 F st → safeFrom F (s :: rest) = true →
      ∃ F', Inv n0 h0 F' (step orc i s st) ∧ safeFrom F' rest = true := by
  intro s rest F st hinv hsafe
  obtain ⟨env, h⟩ := st
  obtain ⟨hlen, hold, hfresh⟩ := hinv
  simp only at hlen hold hfresh
  cases s with
  | copy dst src =>
    refine ⟨dst :: F, ?_, by simpa [safeFrom] using hsafe⟩
    have key : ∀ o : Obj, Inv n0 h0 (dst :: F) (env.set dst h.length, h ++ [o]) := by
      intro o
      refine ⟨by simp; omega, ?_, ?_⟩
      · intro l hl
        have : l < h.length := by omega
        simp only [List.getElem?_append_left this]
        exact hold l hl
      · intro v hv l hvl
        simp only [get?_set] at hvl
        by_cases hvd : v = dst
        · simp only [hvd, if_true, Option.some.injEq] at hvl; omega
        · simp only [hvd, if_false] at hvl
          rcases List.mem_cons.mp hv with h1 | h1
          · exact absurd h1 hvd
          · exact hfresh v h1 l hvl
    simp only [step]
    cases env.get? src with
    | none => exact key _
    | some l0 => exact key _
  | write base =>
    have hs : F.contains base = true ∧ safeFrom F rest = true := by
      simpa [safeFrom] using hsafe
    refine ⟨F, ?_, hs.2⟩
    have hmem : base ∈ F := by simpa using hs.1
    simp only [step]
    by_cases hr : orc.runs i = true
    · simp only [hr, Bool.not_true, Bool.false_eq_true, if_false]
      cases hb : env.get? base with
      | none => exact ⟨hlen, hold, hfresh⟩
      | some l0 =>
        have hl0 : n0 ≤ l0 := hfresh base hmem l0 hb
        refine ⟨by simpa [setAt] using hlen, ?_, hfresh⟩
        intro l hl
        have hne : l0 ≠ l := by omega
        simp only [setAt]
        rw [List.getElem?_set_ne hne]
        exact hold l hl
    · simp only [hr, Bool.not_false, if_true]
      exact ⟨hlen, hold, hfresh⟩
  | writeNested base =>
    simp [safeFrom] at hsafe
  | alias dst =>
    refine ⟨F.filter (· != dst), ?_, by simpa [safeFrom] using hsafe⟩
    simp only [step]
    by_cases hr : orc.runs i = true
    · simp only [hr, Bool.not_true, Bool.false_eq_true, if_false]
      refine ⟨hlen, hold, ?_⟩
      intro v hv l hvl
      have hv' := List.mem_filter.mp hv
      have hvd : v ≠ dst := by simpa using hv'.2
      simp only [get?_set, hvd, if_false] at hvl
      exact hfresh v hv'.1 l hvl
    · simp only [hr, Bool.not_false, if_true]
      refine ⟨hlen, hold, ?_⟩
      intro v hv l hvl
      exact hfresh v (List.mem_filter.mp hv).1 l hvl

theorem execFrom_inv (orc : Oracle) (n0 : Nat) (h0 : Heap) :
    ∀ (prog : List Stmt) (i : Nat) (F : List String) (st : Env × Heap),
      Inv n0 h0 F st → safeFrom F prog = true → ∃ F', Inv n0 h0 F' (execFrom orc i prog st) := by
  intro prog
  induction prog with
  | nil => intro i F st hinv _; exact ⟨F, hinv⟩
  | cons s rest ih =>
    intro i F st hinv hsafe
    obtain ⟨F', hinv', hsafe'⟩ := step_inv orc i n0 h0 s rest F st hinv hsafe
    exact ih (i + 1) F' _ hinv' hsafe'

/-- **soundness of the static check**: a program that passes `safe`, started in any environment on
any heap, leaves every object that existed before untouched — for every oracle -/
theorem safe_preserves (orc : Oracle) (prog : List Stmt) (env : Env) (h0 : Heap) (hs : safe prog = true) :
    ∀ l, l < h0.length → (exec orc prog (env, h0)).2[l]? = h0[l]? := by
  have hinv : Inv h0.length h0 [] (env, h0) :=
    ⟨Nat.le_refl _, fun _ _ => rfl, fun v hv => by simp at hv⟩
  obtain ⟨F', _, hold, _⟩ := execFrom_inv orc h0.length h0 prog 0 [] (env, h0) hinv hs
  exact hold

end Yadism.Heap

namespace Yadism.Heap

/-- more names known fresh can only help -/
theorem safeFrom_mono : ∀ (prog : List Stmt) (F G : List String), (∀ v, v ∈ F → v ∈ G) →
    safeFrom F prog = true → safeFrom G prog = true := by
  intro prog
  induction prog with
  | nil => intro _ _ _ _; rfl
  | cons s rest ih =>
    intro F G hFG h
    cases s with
    | copy dst src =>
      simp only [safeFrom] at h ⊢
      exact ih (dst :: F) (dst :: G) (by
        intro v hv
        rcases List.mem_cons.mp hv with h1 | h1
        · exact List.mem_cons.mpr (Or.inl h1)
        · exact List.mem_cons.mpr (Or.inr (hFG v h1))) h
    | write base =>
      simp only [safeFrom, Bool.and_eq_true] at h ⊢
      refine ⟨?_, ih F G hFG h.2⟩
      have : base ∈ F := by simpa using h.1
      simpa using hFG base this
    | writeNested base => simp [safeFrom] at h
    | alias dst =>
      simp only [safeFrom] at h ⊢
      exact ih _ _ (by
        intro v hv
        have hv' := List.mem_filter.mp hv
        exact List.mem_filter.mpr ⟨hFG v hv'.1, hv'.2⟩) h

theorem freshAfter_mono : ∀ (prog : List Stmt) (F G : List String), (∀ v, v ∈ F → v ∈ G) →
    ∀ v, v ∈ freshAfter F prog → v ∈ freshAfter G prog := by
  intro prog
  induction prog with
  | nil => intro F G h v hv; exact h v hv
  | cons s rest ih =>
    intro F G hFG v hv
    cases s with
    | copy dst src =>
      simp only [freshAfter] at hv ⊢
      exact ih (dst :: F) (dst :: G) (by
        intro w hw
        rcases List.mem_cons.mp hw with h1 | h1
        · exact List.mem_cons.mpr (Or.inl h1)
        · exact List.mem_cons.mpr (Or.inr (hFG w h1))) v hv
    | write base => simp only [freshAfter] at hv ⊢; exact ih F G hFG v hv
    | writeNested base => simp only [freshAfter] at hv ⊢; exact ih F G hFG v hv
    | alias dst =>
      simp only [freshAfter] at hv ⊢
      exact ih _ _ (by
        intro w hw
        have hw' := List.mem_filter.mp hw
        exact List.mem_filter.mpr ⟨hFG w hw'.1, hw'.2⟩) v hv

theorem safeFrom_append : ∀ (p q : List Stmt) (F : List String),
    safeFrom F (p ++ q) = (safeFrom F p && safeFrom (freshAfter F p) q) := by
  intro p
  induction p with
  | nil => intro q F; simp [safeFrom, freshAfter]
  | cons s rest ih =>
    intro q F
    cases s with
    | copy dst src => simp only [List.cons_append, safeFrom, freshAfter]; exact ih q _
    | write base => simp only [List.cons_append, safeFrom, freshAfter, ih q F, Bool.and_assoc]
    | writeNested base => simp [safeFrom]
    | alias dst => simp only [List.cons_append, safeFrom, freshAfter]; exact ih q _

theorem freshAfter_append : ∀ (p q : List Stmt) (F : List String),
    freshAfter F (p ++ q) = freshAfter (freshAfter F p) q := by
  intro p
  induction p with
  | nil => intro q F; rfl
  | cons s rest ih =>
    intro q F
    cases s <;> simp only [List.cons_append, freshAfter] <;> exact ih q _

/-- any sequence of calls of methods that each keep the invariant fresh set is safe from it -/
theorem calls_safe (I : List String) (methods : List (List Stmt))
    (hm : ∀ m ∈ methods, safeFrom I m = true ∧ ∀ v ∈ I, v ∈ freshAfter I m) :
    ∀ calls : List (List Stmt), (∀ c ∈ calls, c ∈ methods) →
      ∀ F, (∀ v ∈ I, v ∈ F) → safeFrom F calls.flatten = true := by
  intro calls
  induction calls with
  | nil => intro _ F _; simp [safeFrom]
  | cons c rest ih =>
    intro hc F hF
    have hcm := hm c (hc c (List.mem_cons_self))
    rw [List.flatten_cons, safeFrom_append]
    have h1 : safeFrom F c = true := safeFrom_mono c I F hF hcm.1
    have h2 : ∀ v ∈ I, v ∈ freshAfter F c := fun v hv => freshAfter_mono c I F hF v (hcm.2 v hv)
    rw [h1, Bool.true_and]
    exact ih (fun d hd => hc d (List.mem_cons_of_mem _ hd)) _ h2

/-- **an object's whole life leaves the pre-existing objects untouched**: constructor, then any
sequence of method calls (any order, any number), for every oracle -/
theorem lifecycle_preserves (orc : Oracle) (init : List Stmt) (methods : List (List Stmt))
    (hs : lifecycleSafe init methods = true) (calls : List (List Stmt)) (hc : ∀ c ∈ calls, c ∈ methods)
    (env : Env) (h0 : Heap) :
    ∀ l, l < h0.length → (exec orc (init ++ calls.flatten) (env, h0)).2[l]? = h0[l]? := by
  apply safe_preserves
  unfold lifecycleSafe at hs
  simp only [Bool.and_eq_true, List.all_eq_true] at hs
  unfold safe
  rw [safeFrom_append]
  have h1 : safeFrom [] init = true := hs.1
  rw [h1, Bool.true_and]
  apply calls_safe (freshAfter [] init) methods _ calls hc _ (fun v hv => hv)
  intro m hm
  have := hs.2 m hm
  refine ⟨this.1, ?_⟩
  intro v hv
  have h3 := this.2 v hv
  simpa using h3

end Yadism.Heap
