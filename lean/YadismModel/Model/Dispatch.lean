/-
Outcome model of a run as far as *dispatch* is concerned (C16): given the tables read from the
live modules (`Generated/Dispatch.lean`), which configuration cells end in a result, an explicit
rejection, or an internal lookup error.

The kernel list comes from the Combiner model (`collect`); only the channel ids are used.
-/
import YadismModel.Model.Combiner

namespace Yadism

inductive Outcome where
  | ok
  | rejected (why : String)
  | internal (what : String)
  deriving DecidableEq, Repr, Inhabited

def Outcome.isInternal : Outcome → Bool
  | .internal _ => true
  | _ => false

/-- first non-ok outcome wins (Python raises at the first failing lookup) -/
def Outcome.andThen (a : Outcome) (b : Unit → Outcome) : Outcome :=
  match a with
  | .ok => b ()
  | x => x

abbrev ModuleTable := List ((String × String × String) × Option (List (String × List String)))

def Kind.lower : Kind → String
  | .F2 => "f2" | .FL => "fl" | .F3 => "f3" | .g1 => "g1" | .gL => "gl" | .g4 => "g4"

def Kind.name : Kind → String
  | .F2 => "F2" | .FL => "FL" | .F3 => "F3" | .g1 => "g1" | .gL => "gL" | .g4 => "g4"

/-- the classes `asy/kernels.py` looks up by a computed name (`"Asy" + "N"*res + "LL" + channel`) -/
def asyLogClasses : List String :=
  ["NonSinglet", "Gluon", "Singlet"].flatMap fun ch =>
    ["AsyLL" ++ ch, "AsyNLL" ++ ch, "AsyNNLL" ++ ch, "AsyNNNLL" ++ ch]

/-- `import_local` + class lookup + construction of orders `0..pto` for one kernel -/
def chanOutcome (tab : ModuleTable) (kind : Kind) (isCC : Bool) (pto : Nat) (c : ChanId) : Outcome :=
  let proc := if isCC then "cc" else "nc"
  match tab.find? (fun e => e.1 == (c.family, kind.lower, proc)) with
  | none => .rejected s!"'{kind.lower}' coefficient functions are not available for process '{proc}'"
  | some (_, none) => .internal "module fails to import"
  | some (_, some classes) =>
    match classes.find? (fun cl => cl.1 == c.cls) with
    | none =>
      if c.cls == "QuarkFL11" || c.cls == "GluonFL11" then .rejected "N3LO is not available"
      else if c.family == "asy" && asyLogClasses.contains c.cls then
        -- `asy.kernels.asy_class`: a logarithmic accuracy that the module does not provide
        .rejected s!"'{c.cls}' is not available"
      else .internal s!"AttributeError {c.family}.{c.cls}"
    | some (_, orders) =>
      if (List.range (pto + 1)).any (fun o => orders.getD o "none" == "err") then
        .internal s!"constructor of {c.family}.{c.cls} raises"
      else .ok

/-- the module a generator imports first, even if it ends up returning no kernel -/
def familyImports (tab : ModuleTable) (kind : Kind) (isCC : Bool) (fams : List String) : Outcome :=
  let proc := if isCC then "cc" else "nc"
  fams.foldl (fun acc f => acc.andThen fun _ =>
    match tab.find? (fun e => e.1 == (f, kind.lower, proc)) with
    | none => .rejected s!"'{kind.lower}' coefficient functions are not available for process '{proc}'"
    | some (_, none) => .internal "module fails to import"
    | some _ => .ok) .ok

/-- one structure function at one point -/
def sfOutcome (tab : ModuleTable) (e : Env) (fl : Flavor) (parts : Parts) : Outcome :=
  (collect e fl parts).foldl (fun acc k => acc.andThen fun _ => chanOutcome tab e.kind e.isCC e.pto k.chan) .ok

/-- TMC wrapper: `ESFTMCmap[kind]` and the inner requests (`F2` for the `h2/g2` integrals of F2
and FL, `g1` for g1) -/
def tmcOutcome (tab : ModuleTable) (tmcKinds : List String) (tmc : Nat) (e : Env) (fl : Flavor) (parts : Parts) : Outcome :=
  if tmc = 0 then sfOutcome tab e fl parts
  else if !tmcKinds.contains e.kind.name then
    .rejected s!"Target mass corrections are not available for '{e.kind.name}'"
  else
    (sfOutcome tab e fl parts).andThen fun _ =>
      match e.kind with
      | .FL => sfOutcome tab { e with kind := .F2 } fl parts
      | _ => .ok

/-- kinematic validation of `EvaluatedStructureFunction.__init__` -/
def kinOutcome (x q2 gridMin : Rat) : Outcome :=
  if x > 1 ∨ x ≤ 0 then .rejected "Kinematics 'x' must be in the range (0,1]"
  else if q2 ≤ 0 then .rejected "Kinematics 'Q2' must be in the range (0,∞)"
  else if x < gridMin then .rejected "x outside xgrid"
  else .ok

/-- `ObservableName.is_valid(name)`: `kind_flavor` with a known kind and flavour, or a bare kind -/
def isValidName (kinds flavors : List String) (name : String) : Bool :=
  (kinds.any fun k => flavors.any fun f => name == k ++ "_" ++ f) ||
    (kinds.contains name && flavors.contains "total")

end Yadism
