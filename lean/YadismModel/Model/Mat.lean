/-
Small dense rational matrices (rows as lists) for the flavour-space projectors of the
scale-variation code (`eko.basis_rotation.ad_projectors`, used as `partons @ projectors`).
-/
namespace Yadism

abbrev QMat := List (List Rat)

def QMat.col (m : QMat) (j : Nat) : List Rat := m.map fun r => r.getD j 0

def dotQ : List Rat → List Rat → Rat
  | a :: as, b :: bs => a * b + dotQ as bs
  | _, _ => 0

def QMat.mul (a b : QMat) (n : Nat) : QMat :=
  a.map fun r => (List.range n).map fun j => dotQ r (b.col j)

def QMat.add (a b : QMat) : QMat := List.zipWith (fun r s => List.zipWith (· + ·) r s) a b

def QMat.zero (n : Nat) : QMat := List.replicate n (List.replicate n 0)

/-- a projector table: sector key `(a, b)` ↦ matrix -/
abbrev ProjTable := List ((Nat × Nat) × QMat)

def ProjTable.get (t : ProjTable) (k : Nat × Nat) (n : Nat) : QMat :=
  match t.find? (fun e => e.1 == k) with
  | some e => e.2
  | none => QMat.zero n

/-- the keys of the singlet/gluon block (`100` = quark singlet, `21` = gluon) and of the three
non-singlet sectors (`eko.basis_rotation.non_singlet_pids_map`) -/
def sgKeys : List (Nat × Nat) := [(100, 100), (100, 21), (21, 100), (21, 21)]
def nsKeys : List (Nat × Nat) := [(10201, 0), (10101, 0), (10200, 0)]

/-- **matrix-unit relations**: in the singlet/gluon block `π(a,b)·π(c,d) = δ_bc π(a,d)`; the
non-singlet projectors are idempotent, mutually orthogonal and orthogonal to the block; the
diagonal ones sum to `ident` -/
def unitRelations (t : ProjTable) (n : Nat) (ident : QMat) : Bool :=
  (sgKeys.all fun k1 => sgKeys.all fun k2 =>
      QMat.mul (t.get k1 n) (t.get k2 n) n == (if k1.2 = k2.1 then t.get (k1.1, k2.2) n else QMat.zero n))
  && (nsKeys.all fun k1 => nsKeys.all fun k2 =>
      QMat.mul (t.get k1 n) (t.get k2 n) n == (if k1 = k2 then t.get k1 n else QMat.zero n))
  && (nsKeys.all fun k1 => sgKeys.all fun k2 =>
      QMat.mul (t.get k1 n) (t.get k2 n) n == QMat.zero n && QMat.mul (t.get k2 n) (t.get k1 n) n == QMat.zero n)
  && ([(100, 100), (21, 21), (10201, 0), (10101, 0), (10200, 0)].foldl (fun acc k => QMat.add acc (t.get k n)) (QMat.zero n) == ident)

end Yadism
