/-
Deep embedding of the numerical kernels (`@nb.njit` functions and Python closures that are
straight-line arithmetic over `z`, `args[i]`, `np.log`, special functions).

The translator (`harness/translate.py`) copies the Python syntax tree into terms of `KExpr`;
all normalisation and comparison is done by Lean functions on these terms.
-/
namespace Yadism

inductive KExpr where
  /-- decimal literal as written in the source, exact -/
  | lit (q : Rat)
  /-- named mathematical constant (`CF`, `CA`, `TR`, `pi`, `zeta2`, `zeta3`, …) -/
  | const (name : String)
  /-- the first argument (momentum fraction) -/
  | z
  /-- `args[i]` -/
  | arg (i : Nat)
  /-- a value captured from the enclosing object (`self.labda`, …) -/
  | param (name : String)
  | add (a b : KExpr)
  | sub (a b : KExpr)
  | mul (a b : KExpr)
  | div (a b : KExpr)
  | neg (a : KExpr)
  | pow (a : KExpr) (n : Nat)
  | log (a : KExpr)
  | sqrt (a : KExpr)
  /-- unary special functions and other externals: `li2(x)`, `s2(x)`, … -/
  | ext1 (name : String) (a : KExpr)
  /-- `wgplg(n, p, x)` with literal integer indices -/
  | ext3 (name : String) (n p : Nat) (a : KExpr)
  deriving Repr, Inhabited

namespace KExpr

/-- number of nodes (reported as model size) -/
def size : KExpr → Nat
  | add a b | sub a b | mul a b | div a b => 1 + a.size + b.size
  | neg a | pow a _ | log a | sqrt a | ext1 _ a | ext3 _ _ _ a => 1 + a.size
  | _ => 1

/-- largest `args` index read (`none`: the argument vector is not read at all) -/
def maxArg : KExpr → Option Nat
  | arg i => some i
  | add a b | sub a b | mul a b | div a b =>
    match a.maxArg, b.maxArg with
    | some x, some y => some (max x y)
    | some x, none => some x
    | none, y => y
  | neg a | pow a _ | log a | sqrt a | ext1 _ a | ext3 _ _ _ a => a.maxArg
  | _ => none

/-- does the term mention `z`? (a local term that does not is x-independent) -/
def usesZ : KExpr → Bool
  | z => true
  | add a b | sub a b | mul a b | div a b => a.usesZ || b.usesZ
  | neg a | pow a _ | log a | sqrt a | ext1 _ a | ext3 _ _ _ a => a.usesZ
  | _ => false

structure FEnv where
  z : Float
  args : Array Float
  consts : String → Float
  params : String → Float
  /-- recorded values of external calls: `(name, argument values, result)` -/
  exts : List (String × List Float × Float)

def fpow (b : Float) : Nat → Float
  | 0 => 1.0
  | n + 1 => fpow b n * b

def ratToFloat (q : Rat) : Float :=
  Float.ofInt q.num / Float.ofNat q.den

def closeF (a b : Float) : Bool := (a - b).abs ≤ 1e-9 * (1.0 + a.abs + b.abs)

/-- `none`: an `args` index out of range, or an external call with no recorded value -/
def evalF (env : FEnv) : KExpr → Option Float
  | lit q => some (ratToFloat q)
  | const n => some (env.consts n)
  | z => some env.z
  | arg i => env.args[i]?
  | param n => some (env.params n)
  | add a b => do pure ((← evalF env a) + (← evalF env b))
  | sub a b => do pure ((← evalF env a) - (← evalF env b))
  | mul a b => do pure ((← evalF env a) * (← evalF env b))
  | div a b => do pure ((← evalF env a) / (← evalF env b))
  | neg a => do pure (- (← evalF env a))
  | pow a n => do pure (fpow (← evalF env a) n)
  | log a => do pure (Float.log (← evalF env a))
  | sqrt a => do pure (Float.sqrt (← evalF env a))
  | ext1 name a => do
      let v ← evalF env a
      (env.exts.find? fun (n, xs, _) => n == name && (match xs with | [x] => closeF x v | _ => false)).map (·.2.2)
  | ext3 name n p a => do
      let v ← evalF env a
      (env.exts.find? fun (nm, xs, _) => nm == name &&
        (match xs with | [a1, a2, x] => a1 == n.toFloat && a2 == p.toFloat && closeF x v | _ => false)).map (·.2.2)

end KExpr

end Yadism
