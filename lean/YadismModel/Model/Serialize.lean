/-
Model of the serialisation layer: `ESFResult.get_raw / from_document`, `EXSResult` (`esf/result.py`)
and the layouts of `Output.dump_tar / load_tar` and `Output.dump_yaml / load_yaml` (`output.py`).

Numbers (`ν`) and tensors (`τ`) are opaque: that `repr`/npz preserve doubles is yaml / numpy
behaviour and outside the model.
-/
import YadismModel.Model.Orders

namespace Yadism.Ser

variable {ν τ : Type}

/-- one `ESFResult` / `EXSResult` (`y = some _` for the latter) -/
structure Res (ν τ : Type) where
  x : ν
  q2 : ν
  nf : Option Nat
  y : Option ν
  orders : List (OKey × τ × τ)

/-- an observable entry of the output dict -/
inductive Obs (ν τ : Type) where
  | none
  | list (rs : List (Res ν τ))

/-- the document `get_raw` produces for one result -/
structure RawRes (ν τ : Type) where
  x : ν
  q2 : ν
  nf : Option Nat
  y : Option ν
  orders : List (List Nat × τ × τ)     -- dict(order=list(o), values=…, errors=…)

def keyToList (k : OKey) : List Nat := [k.as, k.aem, k.lnR, k.lnF]
def keyOfList : List Nat → OKey
  | [a, b, c, d] => ⟨a, b, c, d⟩
  | _ => default

/-- `ESFResult.get_raw` / `EXSResult.get_raw` -/
def getRaw (r : Res ν τ) : RawRes ν τ :=
  { x := r.x, q2 := r.q2, nf := r.nf, y := r.y,
    orders := r.orders.map fun (k, v, e) => (keyToList k, v, e) }

/-- `from_document` (class chosen by the presence of `y`) -/
def fromDocument (d : RawRes ν τ) : Res ν τ :=
  { x := d.x, q2 := d.q2, nf := d.nf, y := d.y,
    orders := d.orders.map fun (k, v, e) => (keyOfList k, v, e) }

/-! ## YAML: `get_raw` of every result, `from_document` on load -/

inductive YObs (ν τ : Type) where
  | none
  | list (rs : List (RawRes ν τ))

def dumpYamlObs : Obs ν τ → YObs ν τ
  | .none => .none
  | .list rs => .list (rs.map getRaw)

/-- `load_yaml`: `None` and empty lists are left alone -/
def loadYamlObs : YObs ν τ → Obs ν τ
  | .none => .none
  | .list rs => .list (rs.map fromDocument)

/-! ## tar: metadata (orders of the first result, kinematics as dict of lists) + stacked arrays -/

/-- what `dump_tar` writes for one observable -/
inductive TObs (ν τ : Type) where
  /-- `metavalue is None` -/
  | none
  /-- empty list of results -/
  | empty
  /-- `orders_first`, kinematics columns `x, Q2, nf, [y]`, `values[i][k]`, `errors[i][k]` -/
  | data (orders : List (List Nat)) (xs q2s : List ν) (nfs : List (Option Nat)) (ys : Option (List ν))
      (values errors : List (List τ))

/-- the orders of every result equal those of the first one (`assert orders_first == orders`) and
`y` is present in all or in none (one class per observable) -/
def uniform (rs : List (Res ν τ)) : Prop :=
  ∀ r ∈ rs, ∀ r0 ∈ rs.head?, r.orders.map (·.1) = r0.orders.map (·.1) ∧ (r.y.isSome = r0.y.isSome)

/-- the `y` column written by `dump_tar` (present iff the first result has `y`) -/
def yDump (b : Bool) (all : List (Res ν τ)) : Option (List ν) :=
  if b then some (all.filterMap (·.y)) else Option.none

/-- the `y` column as read back by `load_tar` -/
def ycolOf (n : Nat) : Option (List ν) → List (Option ν)
  | some l => l.map some
  | Option.none => List.replicate n Option.none

/-- `dump_tar` for one observable (the assertion is a precondition: see `uniform`) -/
def dumpTarObs : Obs ν τ → TObs ν τ
  | .none => .none
  | .list [] => .empty
  | .list (r0 :: rs) =>
    let all := r0 :: rs
    .data (r0.orders.map fun o => keyToList o.1)
      (all.map (·.x)) (all.map (·.q2)) (all.map (·.nf))
      (yDump r0.y.isSome all)
      (all.map fun r => r.orders.map (·.2.1)) (all.map fun r => r.orders.map (·.2.2))

def zip3 {α β γ : Type} : List α → List β → List γ → List (α × β × γ)
  | a :: as, b :: bs, c :: cs => (a, b, c) :: zip3 as bs cs
  | _, _, _ => []

/-- `load_tar` for one observable: `zip(*kinvalues)`, `zip(orders, val, err)`, `from_document` -/
def loadTarObs : TObs ν τ → Obs ν τ
  | .none => .none
  | .empty => .list []
  | .data orders xs q2s nfs ys values errors =>
    let n := xs.length
    let ycol : List (Option ν) := ycolOf n ys
    let rows := zip3 (zip3 xs q2s nfs) ycol (List.zip values errors)
    .list (rows.map fun ((x, q2, nf), y, (vs, es)) =>
      fromDocument { x := x, q2 := q2, nf := nf, y := y, orders := zip3 orders vs es })

end Yadism.Ser
