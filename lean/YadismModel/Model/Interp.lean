/-
The interpolation basis of `eko.interpolation.InterpolatorDispatcher`, as yadism uses it
(`runner.py`: `InterpolatorDispatcher(xgrid, degree, mode_N=False)`).

Everything lives in "t-space": `t = x` for a linear grid, `t = log x` for a logarithmic one (the
logarithm is applied by `log_evaluate_x` / `XGrid` before anything here).  The definitions are
generic in the number type (core arithmetic classes only): they run on `Rat` in the driver and are
instantiated with ordered fields (`ℚ`, `ℝ`) in the proofs.

* `kminOf n d i` – first node of the block of `d+1` nodes used on the interval `(x_i, x_{i+1}]`
  (`list_of_blocks` in `InterpolatorDispatcher.__init__`, with the clamping at both ends);
* `areas n d j` – the intervals on which basis function `j` is not identically zero
  (`BasisFunction.__init__`);
* `lagrange` – the Lagrange polynomial of node `j` in a block (`Area._compute_coefs`, in product
  form; the code expands it in monomials);
* `evalAreas` / `basis` – `evaluate_x`: the first area with `xmin < t ≤ xmax`, or the first area of
  the list when `t = xmin`;
* `isBelowX` – `BasisFunction.is_below_x`.
-/
namespace Yadism.Interp

variable {K : Type} [Add K] [Sub K] [Mul K] [Div K] [Zero K] [One K] [LT K] [LE K]
  [DecidableLT K] [DecidableLE K] [DecidableEq K]

def prodUpTo (f : Nat → K) : Nat → K
  | 0 => 1
  | m + 1 => prodUpTo f m * f m

def sumUpTo (f : Nat → K) : Nat → K
  | 0 => 0
  | m + 1 => sumUpTo f m + f m

def po2 (d : Nat) : Nat := if d % 2 = 0 then d / 2 - 1 else d / 2

def kminOf (n d i : Nat) : Nat :=
  if (i - po2 d) + d ≥ n then n - 1 - d else i - po2 d

def inBlock (n d i j : Nat) : Bool := decide (kminOf n d i ≤ j) && decide (j ≤ kminOf n d i + d)

def areas (n d j : Nat) : List Nat := (List.range (n - 1)).filter fun i => inBlock n d i j

def lagrange (xs : Nat → K) (kmin d j : Nat) (t : K) : K :=
  prodUpTo (fun s => if kmin + s = j then 1 else (t - xs (kmin + s)) / (xs j - xs (kmin + s))) (d + 1)

def evalAreas (xs : Nat → K) (n d j : Nat) (t : K) : List Nat → Bool → K
  | [], _ => 0
  | i :: rest, first =>
    if (xs i < t ∧ t ≤ xs (i + 1)) ∨ (first = true ∧ t = xs i) then lagrange xs (kminOf n d i) d j t
    else evalAreas xs n d j t rest false

def basis (xs : Nat → K) (n d j : Nat) (t : K) : K := evalAreas xs n d j t (areas n d j) true

/-- `areas[-1].xmax <= t` -/
def isBelowX (xs : Nat → K) (n d j : Nat) (t : K) : Bool :=
  match (areas n d j).getLast? with
  | some i => decide (xs (i + 1) ≤ t)
  | none => true

/-- `Σ_j f_j p_j(t)`: what `apply_pdf` and the convolution see of a PDF -/
def interpolant (xs f : Nat → K) (n d : Nat) (t : K) : K :=
  sumUpTo (fun j => f j * basis xs n d j t) n

end Yadism.Interp
