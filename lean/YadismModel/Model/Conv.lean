/-
`EvaluatedStructureFunction.compute_local` without scale variations (`esf/esf.py:110-180`) and
`conv.convolve_vector`: how the operator tensor `orders[(k,0,0,0)][pid][j]` is assembled from the
kernels the Combiner returns.

A kernel is a dictionary of parton weights and a partonic channel; per perturbative order the
channel gives an `RSL` (or nothing) and the channel fixes the convolution point.  The convolution
of one `RSL` with one basis function is `convolutionModel` (`Model/Threshold.lean`: the two early
exits of `conv.convolution`, then quadrature + local term); the quadrature value and the value of
the basis function at the point are inputs here (they are real integrals: see `Properties/C01`).
-/
import YadismModel.Model.Threshold

namespace Yadism.Conv

open Yadism

/-- what one (kernel, order) hands to `convolve_vector` -/
structure OrderInput where
  /-- `cfe.has_order(o)` and the order is requested -/
  active : Bool
  /-- `cfe.coeff[o]()` is not `None` -/
  parts : Option (RslParts Rat)
  /-- per basis function `j`: `pdf_func.is_below_x(point)`, the quadrature value, `pdf_func(point)` -/
  below : Nat → Bool
  quad : Nat → Rat
  pdfAt : Nat → Rat

structure KernelInput where
  /-- `cfe.partons.get(pid, 0)` -/
  weight : Int → Rat
  /-- `cfe.coeff.convolution_point()` -/
  point : Rat
  orders : Nat → OrderInput

/-- `convolve_vector`: one call of `convolution` per basis function, in grid order -/
def convolveVector (eps point : Rat) (oi : OrderInput) (p : RslParts Rat) (n : Nat) : List Rat :=
  (List.range n).map fun j => convolutionModel eps point (oi.below j) p (oi.quad j) (oi.pdfAt j)

/-- the contribution of one kernel to `orders[(o,0,0,0)][pid]` (a row of length `n`): nothing if the
order is inactive or the channel has no coefficient at this order, else
`weight(pid) · point · convolve_vector` -/
def kernelRow (eps : Rat) (k : KernelInput) (o : Nat) (pid : Int) (n : Nat) : List Rat :=
  match (k.orders o).active, (k.orders o).parts with
  | true, some p => (convolveVector eps k.point (k.orders o) p n).map fun v => k.weight pid * (k.point * v)
  | _, _ => List.replicate n 0

def addRows : List Rat → List Rat → List Rat
  | a :: as, b :: bs => (a + b) :: addRows as bs
  | _, _ => []

/-- `res.orders[(o,0,0,0)][pid]`: zeros plus the rows of all kernels -/
def operatorRow (eps : Rat) (ks : List KernelInput) (o : Nat) (pid : Int) (n : Nat) : List Rat :=
  ks.foldl (fun acc k => addRows acc (kernelRow eps k o pid n)) (List.replicate n 0)

end Yadism.Conv
