/-
Model of `esf/exs.py`: `xs_coeffs_unpolarized`, `xs_coeffs_polarized` and the linear algebra of
`EvaluatedCrossSection.get_result` on `ESFResult`s (`esf/result.py: __add__, __mul__`).

Irrational inputs enter as parameters: `pi` (the double `np.pi`) and `mn = sqrt(M2target)`.
-/
import YadismModel.Model.Orders

namespace Yadism

inductive XSKind where
  | XSHERANC | XSHERANCAVG | XSHERACC | XSCHORUSCC | XSNUTEVCC | XSNUTEVNU | FW | F1 | g5 | XSFPFCC
  deriving DecidableEq, Repr, Inhabited

def XSKind.ofString? : String → Option XSKind
  | "XSHERANC" => some .XSHERANC | "XSHERANCAVG" => some .XSHERANCAVG | "XSHERACC" => some .XSHERACC
  | "XSCHORUSCC" => some .XSCHORUSCC | "XSNUTEVCC" => some .XSNUTEVCC | "XSNUTEVNU" => some .XSNUTEVNU
  | "FW" => some .FW | "F1" => some .F1 | "g5" => some .g5 | "XSFPFCC" => some .XSFPFCC
  | _ => none

structure XSParams where
  projectilePID : Int
  /-- `np.sqrt(M2target)` -/
  mn : Rat
  m2w : Rat
  gf : Rat
  /-- `np.pi` -/
  pi : Rat
  deriving Repr, Inhabited

/-- `GEV_CM2_CONV` -/
def gevCm2Conv : Rat := 38937930000   -- 3.893793e10

/-- coefficients on the basis `(F2, FL, xF3)` resp. `(g4, gL, 2xg1)` -/
def xsCoeffs (kind : XSKind) (y x q2 : Rat) (p : XSParams) : Rat × Rat × Rat :=
  let yp := 1 + (1 - y) * (1 - y)
  let ym := 1 - (1 - y) * (1 - y)
  let yL := y * y
  let f3sign : Rat := if p.projectilePID < 0 then -1 else 1
  match kind with
  | .g5 => (1, -1, 0)
  | .F1 => (1, -1, 0)
  | .XSHERANCAVG => (1, -yL / yp, 0)
  | .XSHERANC => (1, -yL / yp, f3sign * ym / yp)
  | .XSHERACC => (yp * (1/4), -yL * (1/4), f3sign * ym * (1/4))
  | .FW =>
    let yL' := y * y / (2 * (y * y / 2 + (1 - y) - (p.mn * x * y) * (p.mn * x * y) / q2))
    (1, -yL', 0)
  | .XSFPFCC =>
    let invGevToPb := gevCm2Conv / 100
    let norm := (invGevToPb * (p.gf * p.gf)) / (2 * p.pi) * (1 / (2 * x * ((1 + q2 / p.m2w) * (1 + q2 / p.m2w))))
    (yp * norm, -yL * norm, f3sign * ym * norm)
  | k =>
    let ypc := yp - 2 * ((p.mn * x * y) * (p.mn * x * y)) / q2
    let norm : Rat := match k with
      | .XSCHORUSCC => gevCm2Conv * (p.gf * p.gf) * p.mn / (2 * p.pi * ((1 + q2 / p.m2w) * (1 + q2 / p.m2w)))
      | .XSNUTEVCC => 100 / 2 / ((1 + q2 / p.m2w) * (1 + q2 / p.m2w))
      | .XSNUTEVNU => gevCm2Conv * (p.gf * p.gf) * p.mn / (2 * p.pi)
      | _ => 0
    (ypc * norm, -yL * norm, f3sign * ym * norm)

/-- a result: the dict `orders`, one tensor entry at a time: order key ↦ value, `none` = key
absent (all tensor entries behave alike) -/
abbrev Res := OKey → Option Rat

def Res.empty : Res := fun _ => none
def Res.get (r : Res) (k : OKey) : Rat := (r k).getD 0
def Res.has (r : Res) (k : OKey) : Bool := (r k).isSome

/-- `ESFResult.__mul__` by a number -/
def Res.smul (c : Rat) (r : Res) : Res := fun k => (r k).map (c * ·)

/-- `ESFResult.__add__`: common keys added, the others taken over -/
def Res.add (a b : Res) : Res := fun k =>
  match a k, b k with
  | some x, some y => some (x + y)
  | some x, none => some x
  | none, some y => some y
  | none, none => none

/-- `EvaluatedCrossSection.get_result`: `linear_coeffs @ [sf1, sf2, sf3]`, with the third
structure function skipped (empty result) when its coefficient is zero; `alpha_qed_power() = 0` -/
def xsResult (c : Rat × Rat × Rat) (sf1 sf2 sf3 : Res) : Res :=
  let s3 : Res := if c.2.2 ≠ 0 then sf3 else Res.empty
  Res.add (Res.add (Res.smul c.1 sf1) (Res.smul c.2.1 sf2)) (Res.smul c.2.2 s3)

end Yadism
