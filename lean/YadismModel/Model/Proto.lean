/-
Line-protocol helpers shared by the driver (`Main.lean`): exact rationals as `num/den`,
booleans as `0/1`, options as `-`.
-/
namespace Yadism.Proto

def parseRat? (s : String) : Option Rat :=
  match s.splitOn "/" with
  | [n] => n.toInt?.map fun i => (i : Rat)
  | [n, d] => do
      let i ← n.toInt?
      let k ← d.toNat?
      if k = 0 then none else some (mkRat i k)
  | _ => none

def showRat (r : Rat) : String :=
  if r.den = 1 then toString r.num else toString r.num ++ "/" ++ toString r.den

def parseBool? (s : String) : Option Bool :=
  match s with
  | "0" => some false
  | "1" => some true
  | _ => none

def showBool (b : Bool) : String := if b then "1" else "0"

/-- a tiny token reader -/
structure Rd where
  toks : List String

abbrev RdM := StateT Rd Option

def tok : RdM String := do
  let s ← get
  match s.toks with
  | [] => failure
  | t :: ts => set (Rd.mk ts); pure t

def rat : RdM Rat := do let t ← tok; (parseRat? t : Option Rat)
def nat : RdM Nat := do let t ← tok; (t.toNat? : Option Nat)
def int : RdM Int := do let t ← tok; (t.toInt? : Option Int)
def bool : RdM Bool := do let t ← tok; (parseBool? t : Option Bool)
def optNat : RdM (Option Nat) := do
  let t ← tok
  if t == "-" then pure none else do
    let n ← (t.toNat? : Option Nat)
    pure (some n)

def rats (n : Nat) : RdM (List Rat) := do
  let mut out := []
  for _ in [0:n] do
    let r ← rat
    out := out ++ [r]
  pure out

def atEnd : RdM Bool := do
  let s ← get
  pure s.toks.isEmpty

def run {α} (m : RdM α) (toks : List String) : Option α :=
  match m.run ⟨toks⟩ with
  | some (a, rest) => if rest.toks.isEmpty then some a else none
  | none => none

end Yadism.Proto
