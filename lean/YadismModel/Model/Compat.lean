/-
Model of `input/compatibility.py` (`update_fns`, `update_scale_variations`, `update_target`,
`update`) and of the threshold logic (`runner.py` walls, `eko.matchings.nf_default`).
-/
namespace Yadism

/-! ## Targets -/

/-- `update_target`: named target -> `(Z, A)`; `none` = `ValueError("Unknown TargetDIS")` -/
def namedTarget : String → Option (Rat × Rat)
  | "proton" => some (1, 1)
  | "neutron" => some (0, 1)
  | "isoscalar" => some (1, 2)
  | "iron" => some (23.403, 49.618)
  | "lead" => some (82, 208)
  | "neon" => some (10, 20)
  | "marble" => some ((20 + 3 * 8 + 6) / 5, (40 + 3 * 16 + 12) / 5)
  | _ => none

/-- `TargetDISid` written next to the `(Z, A)` dict -/
def namedTargetId : String → Option String
  | "proton" => some "2212"
  | "neutron" => some "2112"
  | "isoscalar" => some "1000010020"
  | "iron" => some "1000260560"
  | "lead" => some "1000822080"
  | "neon" => some "1000100200"
  | "marble" => some "100010.020.00"
  | _ => none

/-! ## Flavour-number schemes -/

inductive Scheme where
  | ZM | FFNS | FFN0 | FONLL_FFNS | FONLL_FFN0
  deriving DecidableEq, Repr, Inhabited

def Scheme.ofString? : String → Option Scheme
  | "ZM-VFNS" => some .ZM
  | "FFNS" => some .FFNS
  | "FFN0" => some .FFN0
  | "FONLL-FFNS" => some .FONLL_FFNS
  | "FONLL-FFN0" => some .FONLL_FFN0
  | _ => none

/-- what `update_fns` does to `k{fl}Thr` -/
inductive KThr where
  | keep | zero | inf
  deriving DecidableEq, Repr

/-- `update_fns` for heavy flavour number `k = 0,1,2` (c, b, t): new threshold ratio and new
`ZM{fl}` (`none` = key left as it is) -/
def updateFns (s : Scheme) (nfff : Nat) (k : Nat) : KThr × Option Bool :=
  match s with
  | .ZM => (.keep, some true)
  | .FONLL_FFNS | .FONLL_FFN0 =>
    if k + 4 ≤ nfff then (.zero, some true)
    else if k + 4 > nfff + 1 then (.inf, some true)
    else (.inf, some false)
  | .FFNS | .FFN0 =>
    if k + 4 ≤ nfff then (.zero, some true) else (.inf, some false)

/-! ## Thresholds -/

/-- a squared scale: finite rational or `+∞` -/
inductive ExtRat where
  | fin (r : Rat)
  | inf
  deriving DecidableEq, Repr, Inhabited

def ExtRat.le : ExtRat → ExtRat → Bool
  | .fin a, .fin b => decide (a ≤ b)
  | _, .inf => true
  | .inf, .fin _ => false

/-- `[0] + matching_scales + [inf]` -/
def walls (ms : List ExtRat) : List ExtRat := [ExtRat.fin 0] ++ ms ++ [ExtRat.inf]

def monotone : List ExtRat → Bool
  | [] => true
  | [_] => true
  | a :: b :: rest => a.le b && monotone (b :: rest)

/-- `np.digitize(q2, walls)` for monotonically increasing bins: the number of walls `≤ q2` -/
def digitize (q2 : Rat) (ws : List ExtRat) : Nat := (ws.filter fun w => w.le (.fin q2)).length

/-- `nf_default(Q2, atlas)`; `none` = numpy's "bins must be monotonically increasing" -/
def nfDefault (q2 : Rat) (ms : List ExtRat) : Option Nat :=
  if monotone (walls ms) then some (2 + digitize q2 (walls ms)) else none

/-- matching scale of a heavy quark after `update_fns`: `m² · k²` with `k ∈ {card value, 0, ∞}`
(`m2 > 0` finite) -/
def matchingScale (m2 k2 : Rat) (kt : KThr) : ExtRat :=
  match kt with
  | .keep => .fin (m2 * k2)
  | .zero => .fin 0
  | .inf => .inf

/-- the matching scales the Runner hands to the `Atlas` -/
def matchingScales (s : Scheme) (nfff : Nat) (m2 k2 : List Rat) : List ExtRat :=
  (List.range 3).map fun k => matchingScale (m2.getD k 1) (k2.getD k 1) (updateFns s nfff k).1

/-! ## `compatibility.update` on cards

A card is an association list from keys to opaque values (`Val`); nested Python objects
(kinematics lists, grids, CKM lists) are opaque leaves that `update` never looks into. -/

inductive Val where
  | none
  | bool (b : Bool)
  | num (r : Rat)
  | inf
  | str (s : String)
  | pair (a b : Val)
  /-- any other object, identified by an opaque id (e.g. `id()` of a nested list) -/
  | obj (id : Nat)
  deriving DecidableEq, Repr, Inhabited

abbrev Card := List (String × Val)

def Card.get? : Card → String → Option Val
  | [], _ => none
  | (k, v) :: rest, key => if k = key then some v else Card.get? rest key

def Card.erase : Card → String → Card
  | [], _ => []
  | (k', v') :: rest, k => if k' = k then Card.erase rest k else (k', v') :: Card.erase rest k

/-- `d[k] = v`: replace in place when present, append otherwise (Python dict order) -/
def Card.set : Card → String → Val → Card
  | [], k, v => [(k, v)]
  | (k', v') :: rest, k, v => if k' = k then (k, v) :: rest else (k', v') :: Card.set rest k v

def hqfl : List String := ["c", "b", "t"]

inductive UpdErr where
  | unknownScheme | unknownTarget | missingKey
  deriving DecidableEq, Repr

/-- the two writes `update_fns` does for heavy flavour `k` -/
def setFlavour (fns : Scheme) (nfff : Nat) (k : Nat) (t : Card) : Card :=
  let fl := hqfl.getD k ""
  let t := match (updateFns fns nfff k).1 with
    | .keep => t
    | .zero => t.set ("k" ++ fl ++ "Thr") (.num 0)
    | .inf => t.set ("k" ++ fl ++ "Thr") .inf
  match (updateFns fns nfff k).2 with
  | some b => t.set ("ZM" ++ fl) (.bool b)
  | none => t

/-- `if "PTODIS" not in theory or theory["PTODIS"] is None: theory["PTODIS"] = theory["PTO"]` -/
def setPtodis (t : Card) : Card :=
  match t.get? "PTODIS" with
  | some .none | none => t.set "PTODIS" ((t.get? "PTO").getD .none)
  | _ => t

/-- `if "FONLLParts" not in theory or …is None: theory["FONLLParts"] = "full"` -/
def setFonll (t : Card) : Card :=
  match t.get? "FONLLParts" with
  | some .none | none => t.set "FONLLParts" (.str "full")
  | _ => t

/-- the defaults `update_fns` fills in at its end -/
def setDefaults (t : Card) : Card := setFonll (setPtodis t)

/-- `update_fns(theory)` -/
def updateFnsCard (t : Card) : Except UpdErr Card :=
  match t.get? "FNS", t.get? "NfFF" with
  | some (.str s), some (.num r) =>
    match Scheme.ofString? s with
    | some fns =>
      let nfff := r.num.toNat
      .ok (setDefaults (setFlavour fns nfff 2 (setFlavour fns nfff 1 (setFlavour fns nfff 0 t))))
    | none => .error .unknownScheme
  | _, _ => .error .missingKey

def setRen (t : Card) : Card :=
  if (t.get? "RenScaleVar").isNone then t.set "RenScaleVar" (.bool true) else t
def setFact (t : Card) : Card :=
  if (t.get? "FactScaleVar").isNone then t.set "FactScaleVar" (.bool true) else t

/-- `update_scale_variations(theory)` -/
def updateSV (t : Card) : Card := setFact (setRen t)

/-- `if "alphaqed" in new_theory: new_theory["alphaem"] = new_theory.pop("alphaqed")` -/
def moveAlpha (t : Card) : Card :=
  match t.get? "alphaqed" with
  | some v => (t.erase "alphaqed").set "alphaem" v
  | none => t

/-- `if "QED" in new_theory: new_theory["order"] = (new_theory["PTO"] + 1, new_theory.pop("QED"))` -/
def moveQED (t : Card) : Card :=
  match t.get? "QED" with
  | some (.num q) =>
    let pto := match t.get? "PTO" with | some (.num p) => p | _ => 0
    (t.erase "QED").set "order" (.pair (.num (pto + 1)) (.num q))
  | some v => (t.erase "QED").set "order" (.pair .none v)
  | none => t

/-- `update_target(obs)`; a non-string `TargetDIS` is left alone -/
def updateTarget (o : Card) : Except UpdErr Card :=
  match o.get? "TargetDIS" with
  | some (.str s) =>
    match namedTarget s, namedTargetId s with
    | some (z, a), some id =>
      pure ((o.set "TargetDIS" (.pair (.num z) (.num a))).set "TargetDISid" (.str id))
    | _, _ => throw .unknownTarget
  | some _ => pure o
  | none => throw .missingKey

/-- `compatibility.update(theory, observables)` -/
def update (t o : Card) : Except UpdErr (Card × Card) :=
  match updateFnsCard t, updateTarget o with
  | .ok t1, .ok o1 => .ok (moveQED (moveAlpha (updateSV t1)), o1)
  | .error e, _ => .error e
  | _, .error e => .error e

end Yadism
