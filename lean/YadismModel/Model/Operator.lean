/-
The operator assembled by `EvaluatedStructureFunction.compute_local`, one entry at a time:
for a fixed perturbative order and grid index, `conv chan` is the number
`x_conv · (coefficient of that channel ⊗ basis function)` — an arbitrary parameter here — and the
entry of parton `p` is `Σ_kernels partons[p] · conv(kernel)` ("blow up to flavor space").
-/
import YadismModel.Model.Combiner

namespace Yadism

def opEntry (ks : List Kernel) (conv : ChanId → Rat) (p : Int) : Rat :=
  listSum (ks.map fun k => k.partons p * conv k.chan)

/-- contraction of one operator column with a PDF vector `f : pid → Rat` -/
def contract (ks : List Kernel) (conv : ChanId → Rat) (f : Int → Rat) : Rat :=
  listSum (flavorBasisPids.map fun p => opEntry ks conv p * f p)

end Yadism
