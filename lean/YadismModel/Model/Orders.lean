/-
Model of the scale-variation algebra:
`esf/scale_variations.py` (`build_orders`, `ren_coeffs`, `apply_common_scale_variations`,
`apply_raw_diff_scale_variations`, `apply_diff_scale_variations`),
`coefficient_functions/splitting_functions/__init__.py` (`sector_mapping`, `c110`, `c211`, `c220`)
and the part of `esf/esf.py: compute_local` that combines them (factor `x_conv`, intrinsic denial,
accumulation `partons ⊗ vector`).

Generic over the type `M` of "interpolation-space operators" (N×N matrices in the executable
instance, an arbitrary commutative algebra in the theorems).
-/
import YadismModel.Model.Weights

namespace Yadism

/-- order key `(a_s power, alpha power, lnR power, lnF power)` -/
structure OKey where
  as : Nat
  aem : Nat
  lnR : Nat
  lnF : Nat
  deriving DecidableEq, Repr, Inhabited

/-- `scale_variations.build_orders(order)` -/
def buildOrders (order : Nat) : List OKey :=
  ((List.range (order + 1)).map fun a =>
    ((List.range (a + 1)).map fun lnf =>
      (List.range (max a 1)).map fun lnr => (⟨a, 0, lnr, lnf⟩ : OKey)).flatten).flatten

/-- raw splitting-kernel operators (`split.raw_labels`) -/
inductive Label where
  | Pqq0 | Pqg0 | Pgq0 | Pgg0
  | Pnsp1 | Pnsm1 | Pqq1 | Pqg1 | Pqq0sq | PqgPgq | PqqPqg | PqgPgg
  deriving DecidableEq, Repr

/-- `br.anomalous_dimensions_basis`, in eko's order:
(100,100) (100,21) (21,100) (21,21) ns- ns+ nsV -/
inductive Sector where
  | qq | qg | gq | gg | nsm | nsp | nsv
  deriving DecidableEq, Repr

def Sector.all : List Sector := [.qq, .qg, .gq, .gg, .nsm, .nsp, .nsv]

/-- the operations the sector mapping needs from the operator type -/
class OpAlg (M : Type) where
  add : M → M → M
  sub : M → M → M
  smul : Rat → M → M
  zero : M

/-- `beta.beta_qcd_as2(nf)` and `beta.beta_qcd_as3(nf)` (eko, `a_s = α_s/4π` normalisation) -/
def beta0 (nf : Nat) : Rat := 11 - 2 / 3 * (nf : Rat)
def beta1 (nf : Nat) : Rat := 102 - 38 / 3 * (nf : Rat)

section SectorMapping
variable {M : Type} [OpAlg M]

/-- `empty_gluon` + the quark rows of `joint_lo(fnc, add_gluonic)` -/
def jointLo (f : Label → M) (gluonic : Bool) : Sector → M
  | .qq => f .Pqq0
  | .qg => f .Pqg0
  | .gq => if gluonic then f .Pgq0 else OpAlg.zero
  | .gg => if gluonic then f .Pgg0 else OpAlg.zero
  | .nsm | .nsp | .nsv => f .Pqq0

/-- `c211`: subtract `β0 · 1` on the diagonal labels only -/
def c211 (ops : Label → M) (one : M) (b0 : Rat) (l : Label) : M :=
  match l with
  | .Pgq0 | .Pqg0 => ops l
  | _ => OpAlg.sub (ops l) (OpAlg.smul b0 one)

/-- `c220(((a, b), c))` = `0.5 * (a + b - β0 c)` (with `b` optional) -/
def c220 (ops : Label → M) (b0 : Rat) (a : Label) (b : Option Label) (c : Label) : M :=
  let s := match b with
    | some b => OpAlg.add (ops a) (ops b)
    | none => ops a
  OpAlg.smul (1/2) (OpAlg.sub s (OpAlg.smul b0 (ops c)))

/-- `sector_mapping(order, matrices, nf)`: list of `((target, lnf, src), sector ↦ operator)` in
dict order -/
def sectorMapping (order : Nat) (ops : Label → M) (one : M) (b0 : Rat) :
    List ((Nat × Nat × Nat) × (Sector → M)) :=
  (if order ≥ 1 then [((1, 1, 0), jointLo ops false)] else []) ++
  (if order ≥ 2 then
    [((2, 1, 0), fun s => match s with
        | .nsp => ops .Pnsp1
        | .nsm => ops .Pnsm1
        | .nsv => ops .Pnsm1
        | .qq => ops .Pqq1
        | .qg => ops .Pqg1
        | .gq | .gg => OpAlg.zero),
     ((2, 1, 1), jointLo (c211 ops one b0) true),
     ((2, 2, 0), fun s => match s with
        | .nsp | .nsm | .nsv => c220 ops b0 .Pqq0sq none .Pqq0
        | .qq => c220 ops b0 .Pqq0sq (some .PqgPgq) .Pqq0
        | .qg => c220 ops b0 .PqqPqg (some .PqgPgg) .Pqg0
        | .gq | .gg => OpAlg.zero)]
   else [])

end SectorMapping

/-- `ScaleVariations.ren_coeffs(nf)`: `((target, lnf2r, src), coefficient)`, filtered by order -/
def renCoeffs (order nf : Nat) : List ((Nat × Nat × Nat) × Rat) :=
  ([((2, 1, 1), beta0 nf), ((3, 1, 2), 2 * beta0 nf), ((3, 1, 1), beta1 nf),
    ((3, 2, 1), beta0 nf * beta0 nf)] : List ((Nat × Nat × Nat) × Rat)).filter fun e => e.1.1 ≤ order

/-! ## Concrete tensors -/

abbrev Vec := List Rat
abbrev Mat := List (List Rat)

def Vec.add (a b : Vec) : Vec := List.zipWith (· + ·) a b
def Vec.smul (k : Rat) (a : Vec) : Vec := a.map (k * ·)
def Vec.dot (a b : Vec) : Rat := listSum (List.zipWith (· * ·) a b)
def Mat.mulVec (m : Mat) (v : Vec) : Vec := m.map fun row => Vec.dot row v
/-- row vector times matrix -/
def Mat.vecMul (v : Vec) (m : Mat) : Vec :=
  match m with
  | [] => []
  | r :: _ => (List.range r.length).map fun j => listSum (List.zipWith (fun vi row => vi * row.getD j 0) v m)

instance : OpAlg Mat where
  add a b := List.zipWith Vec.add a b
  sub a b := List.zipWith (fun x y => List.zipWith (· - ·) x y) a b
  smul k a := a.map (Vec.smul k)
  zero := []   -- absorbing: `mulVec [] v = []`, printed as zeros by `Tensor.addOuter`

/-- a rank-one piece of an operator: weights over the 14 pids ⊗ vector over the grid -/
structure Term where
  w : Vec
  v : Vec
  deriving Repr

/-- one entry of `ker_orders`: key and `partons @ val` as a sum of rank-one terms -/
structure KerOrder where
  key : OKey
  terms : List Term
  deriving Repr

def Term.scale (k : Rat) (t : Term) : Term := { t with w := Vec.smul k t.w }

/-- `apply_common_scale_variations` -/
def applyCommon (actFact : Bool) (fact : List ((Nat × Nat × Nat) × (Sector → Mat)))
    (proj : Sector → Mat) (kers : List KerOrder) : List KerOrder :=
  if !actFact then [] else
  (kers.map fun k =>
    (fact.filter fun f => f.1.2.2 = k.key.as).map fun f =>
      ({ key := ⟨f.1.1, k.key.aem, 0, f.1.2.1⟩,
         terms := (k.terms.map fun t =>
            Sector.all.map fun s => ({ w := Mat.vecMul t.w (proj s), v := Mat.mulVec (f.2 s) t.v } : Term)).flatten }
        : KerOrder)).flatten

/-- `apply_raw_diff_scale_variations` -/
def applyRawDiff (ren : List ((Nat × Nat × Nat) × Rat)) (kers : List KerOrder) : List KerOrder :=
  (kers.map fun k =>
    (ren.filter fun r => r.1.2.2 = k.key.as).map fun r =>
      ({ key := ⟨r.1.1, k.key.aem, r.1.2.1, k.key.lnF⟩, terms := k.terms.map (Term.scale r.2) } : KerOrder)).flatten

def binom : Nat → Nat → Nat
  | _, 0 => 1
  | 0, _ + 1 => 0
  | n + 1, k + 1 => binom n k + binom n (k + 1)

/-- the binomial split of `ln(μ_R²/μ_F²)^n = (lnF − lnR)^n` inside `apply_diff_scale_variations` -/
def binomialSplit (kers : List KerOrder) : List KerOrder :=
  (kers.map fun k =>
    let n := k.key.lnR
    (List.range (n + 1)).map fun j =>
      ({ key := ⟨k.key.as, k.key.aem, j, n - j + k.key.lnF⟩,
         terms := k.terms.map (Term.scale ((binom n j : Rat) * (if j % 2 = 0 then 1 else -1))) } : KerOrder)).flatten

/-- `apply_diff_scale_variations` -/
def applyDiff (actRen actFact : Bool) (ren : List ((Nat × Nat × Nat) × Rat)) (kers : List KerOrder) :
    List KerOrder :=
  if !actFact && !actRen then [] else
  let all := binomialSplit (applyRawDiff ren kers)
  if !actRen then all.filter fun e => e.key.lnR = 0
  else if !actFact then all.filter fun e => e.key.lnF = 0
  else all

/-- what `compute_local` needs to know about one kernel -/
structure KerIn where
  intrinsic : Bool
  partons : Vec
  convPoint : Rat
  /-- for each order `o ≤ pto`: the vector returned by `convolve_vector`, or `none` when the order
  is absent (`has_order` false or `coeff[o]()` is `None`) -/
  vals : List (Option Vec)
  deriving Repr

/-- the scale-variation part of `compute_local` for one kernel: all `ker_orders` -/
def kernelOrders (actRen actFact : Bool) (fact : List ((Nat × Nat × Nat) × (Sector → Mat)))
    (proj : Sector → Mat) (ren : List ((Nat × Nat × Nat) × Rat)) (k : KerIn) : List KerOrder :=
  let central : List KerOrder := (k.vals.zipIdx.filterMap fun (v, o) =>
    v.map fun vec => ({ key := ⟨o, 0, 0, 0⟩, terms := [{ w := k.partons, v := Vec.smul k.convPoint vec }] } : KerOrder))
  if !k.intrinsic then
    let k1 := central ++ applyCommon actFact fact proj central
    k1 ++ applyDiff actRen actFact ren k1
  else
    central ++ (applyDiff actRen actFact ren central).filter fun e => e.key.lnF = 0

/-- `res.orders[o][0]` entry `(pid index a, grid index j)` -/
def tensorEntry (all : List KerOrder) (key : OKey) (a j : Nat) : Rat :=
  listSum ((all.filter fun k => k.key = key).map fun k =>
    listSum (k.terms.map fun t => t.w.getD a 0 * t.v.getD j 0))

end Yadism
