/-
Model of `src/yadism/coefficient_functions/coupling_constants.py`.

Mathlib-free and executable.  Everything runs on `Rat`: every Python double is a dyadic
rational, so quantifying over `Rat` quantifies over every input the implementation can receive;
what the model does *not* reproduce is the IEEE rounding of the intermediate arithmetic
(the correspondence check compares within a cancellation-aware tolerance).
-/
namespace Yadism

inductive Process where
  | EM | NC | CC
  deriving DecidableEq, Repr, Inhabited

/-- boson pair exchanged; `Zph` only occurs in the `fl11` weights -/
inductive Mode where
  | phph | phZ | Zph | ZZ | WW
  deriving DecidableEq, Repr

/-- one letter of the quark coupling type -/
inductive CT where
  | V | A
  deriving DecidableEq, Repr

/-- `"VV" | "AA" | "VA" | "AV"` -/
structure QCT where
  first : CT
  second : CT
  deriving DecidableEq, Repr

def QCT.VV : QCT := ⟨.V, .V⟩
def QCT.AA : QCT := ⟨.A, .A⟩
def QCT.VA : QCT := ⟨.V, .A⟩
def QCT.AV : QCT := ⟨.A, .V⟩

/-- `quark_coupling_type in ["VV","AA"]` -/
def QCT.isPC (t : QCT) : Bool := t.first == t.second

/-- squared CKM matrix, rows `u c t`, columns `d s b` -/
structure CKM2 where
  ud : Rat
  us : Rat
  ub : Rat
  cd : Rat
  cs : Rat
  cb : Rat
  td : Rat
  ts : Rat
  tb : Rat
  deriving Repr, Inhabited

/-- The string `cc_mask` as far as `CKM2Matrix.masked` and `len(cc_mask)` look at it. -/
structure Mask where
  dus : Bool
  c : Bool
  b : Bool
  t : Bool
  /-- `len(cc_mask)` -/
  len : Nat
  deriving DecidableEq, Repr

/-- `br.quark_names[:nf]` -/
def Mask.light (nf : Nat) : Mask :=
  { dus := decide (3 ≤ nf), c := decide (4 ≤ nf), b := decide (5 ≤ nf), t := decide (6 ≤ nf), len := nf }

/-- `br.quark_names[ihq-1]` (one character) -/
def Mask.single (ihq : Nat) : Mask :=
  { dus := false, c := decide (ihq = 4), b := decide (ihq = 5), t := decide (ihq = 6), len := 1 }

/-- `cc_mask=None`: `masked(None)` would raise in Python (`"dus" in None`); never used for CC. -/
def b2r (b : Bool) : Rat := if b then 1 else 0

/-- `CKM2Matrix.masked(flavs)`: elementwise product with the sum of the four 0/1 patterns. -/
def CKM2.masked (m : CKM2) (k : Mask) : CKM2 :=
  { ud := m.ud * (b2r k.dus), us := m.us * (b2r k.dus), ub := m.ub * (b2r k.b),
    cd := m.cd * (b2r k.c),   cs := m.cs * (b2r k.c),   cb := m.cb * (b2r k.b),
    td := m.td * (b2r k.t),   ts := m.ts * (b2r k.t),   tb := m.tb * (b2r k.t) }

/-- `np.sum(ckm(pid))`: row sum for an up-type (even) pid, column sum for a down-type pid. -/
def CKM2.sumFor (m : CKM2) (pid : Nat) : Rat :=
  match pid with
  | 2 => m.ud + m.us + m.ub
  | 4 => m.cd + m.cs + m.cb
  | 6 => m.td + m.ts + m.tb
  | 1 => m.ud + m.cd + m.td
  | 3 => m.us + m.cs + m.ts
  | 5 => m.ub + m.cb + m.tb
  | _ => 0

structure TheoryCfg where
  mz2 : Rat
  mw2 : Rat
  s2w : Rat
  ckm : CKM2
  deriving Repr, Inhabited

structure ObsCfg where
  process : Process
  /-- 11, -11, 12, -12 -/
  projectile : Int
  pol : Rat
  propCorr : Rat
  /-- `nc_pos_charge`: `none` for `None`/`"all"`, else the pid 1..6 of the named quark -/
  posCharge : Option Nat
  deriving Repr, Inhabited

structure CC where
  th : TheoryCfg
  ob : ObsCfg
  deriving Repr, Inhabited

/-- electric charge of quark `q` (1..6), of the charged leptons (11) and neutrinos (12), gluon 21 -/
def electricCharge (pid : Nat) : Rat :=
  if pid == 21 then 0
  else if pid == 11 || pid == 13 || pid == 15 then -1
  else if pid == 12 || pid == 14 || pid == 16 then 0
  else if pid % 2 == 0 then 2/3 else -1/3

def weakIsospin3 (pid : Nat) : Rat :=
  if pid == 21 then 0
  else if pid == 11 || pid == 13 || pid == 15 then -1/2
  else if pid == 12 || pid == 14 || pid == 16 then 1/2
  else if pid % 2 == 0 then 1/2 else -1/2

def CC.vectorialCoupling (c : CC) (pid : Nat) : Rat :=
  weakIsospin3 pid - 2 * electricCharge pid * c.th.s2w

/-- the polarisation after the projectile-dependent flip of `leptonic_coupling` -/
def CC.effPol (c : CC) : Rat :=
  let p := c.ob.projectile
  -- Python: (p % 2 == 1 and p > 0) or (p % 2 == 0 and p < 0), with Python's non-negative `%`
  if (p.emod 2 == 1 && decide (p > 0)) || (p.emod 2 == 0 && decide (p < 0)) then - c.ob.pol else c.ob.pol

def CC.leptonicCoupling (c : CC) (mode : Mode) (t : QCT) : Rat :=
  let ap := c.ob.projectile.natAbs
  let pol := c.effPol
  let pv := c.vectorialCoupling ap
  let pa := weakIsospin3 ap
  let e := electricCharge ap
  match mode with
  | .WW => 2
  | .phph => if t.isPC then e * e else 0
  | .phZ | .Zph => if t.isPC then e * (pv + pol * pa) else e * (pa + pol * pv)
  | .ZZ => if t.isPC then pv * pv + pa * pa + 2 * pol * pv * pa
           else 2 * pv * pa + pol * (pv * pv + pa * pa)

def CC.qph (_c : CC) (pid : Nat) (l : CT) : Rat :=
  match l with | .V => electricCharge pid | .A => 0

def CC.qZ (c : CC) (pid : Nat) (l : CT) : Rat :=
  match l with | .V => c.vectorialCoupling pid | .A => weakIsospin3 pid

/-- `partonic_coupling` for the neutral modes (`pid` already `abs`-ed) -/
def CC.partonicCouplingNC (c : CC) (mode : Mode) (pid : Nat) (t : QCT) : Rat :=
  match mode with
  | .phph => c.qph pid t.first * c.qph pid t.second
  | .phZ  => c.qph pid t.first * c.qZ pid t.second
  | .ZZ   => c.qZ pid t.first * c.qZ pid t.second
  | _ => 0

/-- `partonic_coupling("WW", pid, _, cc_mask)` -/
def CC.partonicCouplingCC (c : CC) (pid : Nat) (mask : Mask) : Rat :=
  (c.th.ckm.masked mask).sumFor pid

def listSum (l : List Rat) : Rat := l.foldl (· + ·) 0

/-- `partonic_coupling_fl11` -/
def CC.partonicCouplingFl11 (c : CC) (mode : Mode) (pid : Nat) (nf : Nat) (t : QCT) : Rat :=
  let sw (q : Nat) (l : CT) : Rat :=
    match mode with
    | .phph | .Zph => c.qph q l
    | .phZ | .ZZ => c.qZ q l
    | .WW => 0
  match mode with
  | .WW => 0
  | _ =>
    let g1 := listSum ((List.range nf).map fun i => sw (i+1) t.first) / (nf : Rat)
    let g2 := sw pid t.second
    g1 * g2

def CC.etaPhZ (c : CC) (q2 : Rat) : Rat :=
  (q2 / (c.th.mz2 + q2)) / (4 * c.th.s2w * (1 - c.th.s2w)) / (1 - c.ob.propCorr)

def CC.propagatorFactor (c : CC) (mode : Mode) (q2 : Rat) : Rat :=
  match mode with
  | .phph => 1
  | .phZ | .Zph => c.etaPhZ q2
  | .ZZ => c.etaPhZ q2 * c.etaPhZ q2
  | .WW =>
    let r := (c.etaPhZ q2 / 2) * (1 + q2 / c.th.mz2) / (1 + q2 / c.th.mw2)
    r * r

/-- the `nc_pos_charge` early return -/
def CC.posBlocked (c : CC) (apid : Nat) : Bool :=
  match c.ob.posCharge with
  | none => false
  | some p => apid != p

/-- `get_weight` for EM/NC after the `nc_pos_charge` early return (`ap = abs(pid)`) -/
def CC.getWeightNCraw (c : CC) (ap : Nat) (q2 : Rat) (t : QCT) : Rat :=
  let wphph := c.leptonicCoupling .phph t * c.propagatorFactor .phph q2 * c.partonicCouplingNC .phph ap t
  match c.ob.process with
  | .EM => wphph
  | .NC =>
    let wphZ := 2 * c.leptonicCoupling .phZ t * c.propagatorFactor .phZ q2 * c.partonicCouplingNC .phZ ap t
    let wZZ := c.leptonicCoupling .ZZ t * c.propagatorFactor .ZZ q2 * c.partonicCouplingNC .ZZ ap t
    wphph + wphZ + wZZ
  | .CC => 0  -- not reached: CC goes through `getWeightCC`

/-- `get_weight(pid, Q2, quark_coupling_type)` for EM/NC (`pid` may be negative) -/
def CC.getWeightNC (c : CC) (pid : Int) (q2 : Rat) (t : QCT) : Rat :=
  if c.posBlocked pid.natAbs then 0 else c.getWeightNCraw pid.natAbs q2 t

/-- `get_weight(pid, Q2, None, cc_mask)` for CC (`apid = abs(pid)`) -/
def CC.getWeightCC (c : CC) (apid : Nat) (mask : Mask) : Rat :=
  2 * c.partonicCouplingCC apid mask

/-- `get_fl11_weight` after the process test and the `nc_pos_charge` early return -/
def CC.getFl11WeightRaw (c : CC) (ap : Nat) (q2 : Rat) (nf : Nat) (t : QCT) : Rat :=
  let w (m : Mode) := c.leptonicCoupling m t * c.propagatorFactor m q2 * c.partonicCouplingFl11 m ap nf t
  match c.ob.process with
  | .EM => w .phph
  | _ => w .phph + w .phZ + w .Zph + w .ZZ

/-- `get_fl11_weight` -/
def CC.getFl11Weight (c : CC) (pid : Int) (q2 : Rat) (nf : Nat) (t : QCT) : Rat :=
  match c.ob.process with
  | .CC => 0
  | _ => if c.posBlocked pid.natAbs then 0 else c.getFl11WeightRaw pid.natAbs q2 nf t

end Yadism
