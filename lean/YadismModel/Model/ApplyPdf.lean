/-
Model of `ESFResult.apply_pdf` (`esf/result.py`) and of the dispatch in
`Output.apply_pdf_alphas_alphaqed_xir_xif` (`output.py`).

Transcendental / external inputs are parameters: `as = α_s(ξ_R·Q)/(4π)`, `aem = α(ξ_R·Q)`,
`LR = ln(1/ξ_R²)`, `LF = ln(1/ξ_F²)`, and the PDF table `f a j = xfxQ2(pid_a, x_j, ξ_F²Q²)/x_j`.
-/
import YadismModel.Model.Orders

namespace Yadism

def rpow (b : Rat) : Nat → Rat
  | 0 => 1
  | n + 1 => b * rpow b n

/-- `lnF = 1.0 if o[3] == 0 else log(...)**o[3]` -/
def logPow (L : Rat) (n : Nat) : Rat := if n = 0 then 1 else rpow L n

/-- `pdfs[j] = 0` unless `hasFlavor(pid)` -/
def maskedPdf (has : Nat → Bool) (f : Nat → Nat → Rat) : Nat → Nat → Rat :=
  fun a j => if has a then f a j else 0

/-- `np.einsum("aj,aj", v, pdfs)` over `npid × ngrid` -/
def einsum (npid ngrid : Nat) (v f : Nat → Nat → Rat) : Rat :=
  listSum ((List.range npid).map fun a => listSum ((List.range ngrid).map fun j => v a j * f a j))

structure PdfEnv where
  as : Rat
  aem : Rat
  LR : Rat
  LF : Rat
  npid : Nat
  ngrid : Nat
  has : Nat → Bool
  f : Nat → Nat → Rat

/-- `ESFResult.apply_pdf(...)["result"]` for a result with the given list of orders -/
def applyPdf (orders : List (OKey × (Nat → Nat → Rat))) (e : PdfEnv) : Rat :=
  listSum (orders.map fun (o, v) =>
    rpow e.as o.as * rpow e.aem o.aem * logPow e.LR o.lnR * logPow e.LF o.lnF
      * einsum e.npid e.ngrid v (maskedPdf e.has e.f))

end Yadism
