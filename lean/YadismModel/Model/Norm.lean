/-
A small verified-later normaliser for kernels that are polynomials in `L = log(1-z)` times an
integer power of `1/(1-z)`, with coefficients polynomial in `args[0]` (nf, or `log(Q²/m²)`).

Executable part only (Mathlib-free); soundness is proved in `Lemmas/NormSound.lean`.
-/
import YadismModel.Model.KExpr

namespace Yadism

/-- the operations the normaliser needs from its coefficients -/
class Coeff (C : Type) where
  zero : C
  one : C
  add : C → C → C
  mul : C → C → C
  neg : C → C
  ofRat : Rat → C
  /-- `a · args[0]` — the coefficient ring contains the variable `args[0]` -/
  argVar : C
  /-- division by a constant: `some` only when the divisor is a non-zero constant -/
  constVal : C → Option Rat
  smulRat : Rat → C → C

/-- dense univariate polynomial, lowest degree first -/
abbrev Poly (C : Type) := List C

namespace Poly
variable {C : Type} [Coeff C]

def add : Poly C → Poly C → Poly C
  | [], q => q
  | p, [] => p
  | a :: p, b :: q => Coeff.add a b :: add p q

def smul (c : C) (p : Poly C) : Poly C := p.map (Coeff.mul c ·)

def neg (p : Poly C) : Poly C := p.map Coeff.neg

def mul : Poly C → Poly C → Poly C
  | [], _ => []
  | a :: p, q => add (smul a q) (Coeff.zero :: mul p q)

def pow (p : Poly C) : Nat → Poly C
  | 0 => [Coeff.one]
  | n + 1 => mul p (pow p n)

end Poly

/-- polynomials in `args[0]` with rational coefficients: the coefficient ring -/
instance : Coeff Rat where
  zero := 0
  one := 1
  add := (· + ·)
  mul := (· * ·)
  neg := (- ·)
  ofRat := id
  argVar := 0          -- not available at this level
  constVal := some
  smulRat := (· * ·)

/-- `Poly Rat` as coefficients (polynomials in `args[0]`) -/
instance : Coeff (Poly Rat) where
  zero := []
  one := [1]
  add := Poly.add
  mul := Poly.mul
  neg := Poly.neg
  ofRat q := [q]
  argVar := [0, 1]
  constVal p := match p with
    | [] => some 0
    | [c] => some c
    | c :: rest => if rest.all (· == 0) then some c else none
  smulRat q p := p.map (q * ·)

/-- coefficients: polynomials in `args[0]`; main variable: `L = log(1-z)` -/
abbrev PolyLA := Poly (Poly Rat)

/-- value `p(L) · (1-z)^(-k)` -/
structure LD where
  p : PolyLA
  k : Int
  deriving Repr

def constRat (name : String) : Option Rat :=
  match name with
  | "CF" => some (4/3)
  | "CA" => some 3
  | "TR" => some (1/2)
  | _ => none

/-- is this `1 - z` ? -/
def isOneMinusZ : KExpr → Bool
  | .sub (.lit q) .z => q == 1
  | _ => false

/-- constant polynomial value of an `LD`, if it is one (`k = 0`, degree 0 in `L`, constant in `args[0]`) -/
def LD.const? (a : LD) : Option Rat :=
  if a.k ≠ 0 then none else
  match a.p with
  | [] => some 0
  | [c] => Coeff.constVal c
  | _ => none

/-- normalise; `none` = outside the fragment -/
def normLD : KExpr → Option LD
  | .lit q => some ⟨[[q]], 0⟩
  | .const n => (constRat n).map fun q => ⟨[[q]], 0⟩
  | .arg 0 => some ⟨[[0, 1]], 0⟩
  | .add a b => do
      let x ← normLD a; let y ← normLD b
      if x.k = y.k then pure ⟨Poly.add x.p y.p, x.k⟩ else none
  | .sub a b =>
      if isOneMinusZ (.sub a b) then some ⟨[[1]], -1⟩ else do
      let x ← normLD a; let y ← normLD b
      if x.k = y.k then pure ⟨Poly.add x.p (Poly.neg y.p), x.k⟩ else none
  | .mul a b => do
      let x ← normLD a; let y ← normLD b
      pure ⟨Poly.mul x.p y.p, x.k + y.k⟩
  | .neg a => do let x ← normLD a; pure ⟨Poly.neg x.p, x.k⟩
  | .pow a n => do let x ← normLD a; pure ⟨Poly.pow x.p n, x.k * n⟩
  | .div a b => do
      let x ← normLD a; let y ← normLD b
      -- divisor must be `c · (1-z)^(-m)` with a non-zero constant `c`
      match (⟨y.p, 0⟩ : LD).const? with
      | some c => if c = 0 then none else pure ⟨Poly.smul ([1 / c] : Poly Rat) x.p, x.k - y.k⟩
      | none => none
  | .log a => if isOneMinusZ a then some ⟨[[], [1]], 0⟩ else none
  | _ => none

/-- the coefficient obligation between a singular part `a(L)/(1-z)` and a local part `b(L)`:
`(k+1)·b_{k+1} = a_k` for every `k` (as polynomials in `args[0]`), within relative tolerance `τ` on
every rational coefficient -/
def ratClose (τ : Rat) (x y : Rat) : Bool := decide ((x - y).abs ≤ τ * y.abs)

def polyRatClose (τ : Rat) : Poly Rat → Poly Rat → Bool
  | [], [] => true
  | [], y :: ys => ratClose τ 0 y && polyRatClose τ [] ys
  | x :: xs, [] => ratClose τ x 0 && polyRatClose τ xs []
  | x :: xs, y :: ys => ratClose τ x y && polyRatClose τ xs ys

/-- `d/dL` of the local polynomial -/
def derivL : PolyLA → Nat → PolyLA
  | [], _ => []
  | _ :: rest, 0 => derivL rest 1
  | c :: rest, k => Coeff.smulRat (k : Rat) c :: derivL rest (k + 1)

def coeffsClose (τ : Rat) : PolyLA → PolyLA → Bool
  | [], [] => true
  | [], y :: ys => polyRatClose τ [] y && coeffsClose τ [] ys
  | x :: xs, [] => polyRatClose τ x [] && coeffsClose τ xs []
  | x :: xs, y :: ys => polyRatClose τ x y && coeffsClose τ xs ys

/-- the C03 obligation for a `(sing, loc)` pair inside the fragment -/
def distributionOK (τ : Rat) (sing loc : KExpr) : Bool :=
  match normLD sing, normLD loc with
  | some s, some l => s.k == 1 && l.k == 0 && coeffsClose τ (derivL l.p 0) s.p
  | _, _ => false

end Yadism
