/-
A small normaliser for kernels that are polynomials in `L = log(1-z)` times an integer power of
`1/(1-z)`, with coefficients polynomial in `args[0]` (nf, or `log(Q²/m²)`), `zeta2`, `zeta3`.

Executable part only (Mathlib-free); soundness is proved in `Lemmas/NormSound.lean`.
-/
import YadismModel.Model.KExpr

namespace Yadism

/-- the operations the normaliser needs from its coefficients -/
class Coeff (C : Type) where
  zero : C
  one : C
  add : C → C → C
  mul : C → C → C
  neg : C → C
  ofRat : Rat → C
  /-- the `i`-th polynomial variable, when this coefficient type has one -/
  var : Nat → Option C
  /-- the rational value when the element is a constant -/
  constVal : C → Option Rat

/-- dense univariate polynomial, lowest degree first -/
abbrev Poly (C : Type) := List C

namespace Poly
variable {C : Type} [Coeff C]

def add : Poly C → Poly C → Poly C
  | [], q => q
  | p, [] => p
  | a :: p, b :: q => Coeff.add a b :: add p q

def smul (c : C) (p : Poly C) : Poly C := p.map (Coeff.mul c ·)

def neg (p : Poly C) : Poly C := p.map Coeff.neg

def mul : Poly C → Poly C → Poly C
  | [], _ => []
  | a :: p, q => add (smul a q) (Coeff.zero :: mul p q)

def pow (p : Poly C) : Nat → Poly C
  | 0 => [Coeff.one]
  | n + 1 => mul p (pow p n)

end Poly

instance : Coeff Rat where
  zero := 0
  one := 1
  add := (· + ·)
  mul := (· * ·)
  neg := (- ·)
  ofRat := id
  var _ := none
  constVal := some

/-- polynomials over a coefficient type are again coefficients: variable 0 is the new
indeterminate, variable `i+1` is variable `i` of the coefficients -/
instance {C : Type} [Coeff C] : Coeff (Poly C) where
  zero := []
  one := [Coeff.one]
  add := Poly.add
  mul := Poly.mul
  neg := Poly.neg
  ofRat q := [Coeff.ofRat q]
  var i := match i with
    | 0 => some [Coeff.zero, Coeff.one]
    | i + 1 => (Coeff.var i : Option C).map fun v => [v]
  constVal p := match p with
    | [] => some 0
    | [c] => Coeff.constVal c
    | _ => none

/-- coefficient ring: `ℚ[args0][zeta2][zeta3]` as nested univariate polynomials
(variable 0 = `args[0]`, 1 = `zeta2`, 2 = `zeta3`) -/
abbrev CoefT := Poly (Poly (Poly Rat))

/-- polynomials in `L = log(1-z)` over `CoefT` -/
abbrev PolyLA := Poly CoefT

/-- value `p(L) · (1-z)^(-k)` -/
structure LD where
  p : PolyLA
  k : Int

def constRat (name : String) : Option Rat :=
  match name with
  | "CF" => some (4/3)
  | "CA" => some 3
  | "TR" => some (1/2)
  | _ => none

/-- variable index of a symbolic constant -/
def constVar (name : String) : Option Nat :=
  match name with
  | "zeta2" => some 1
  | "zeta3" => some 2
  | _ => none

/-- is this `1 - z` ? -/
def isOneMinusZ : KExpr → Bool
  | .sub (.lit q) .z => q == 1
  | _ => false

def constPoly (q : Rat) : PolyLA := [Coeff.ofRat q]

/-- normalise; `none` = outside the fragment -/
def normLD : KExpr → Option LD
  | .lit q => some ⟨constPoly q, 0⟩
  | .const n =>
    match constRat n with
    | some q => some ⟨constPoly q, 0⟩
    | none =>
      match constVar n with
      | some i => (Coeff.var i : Option CoefT).map fun v => ⟨[v], 0⟩
      | none => none
  | .arg i => if i = 0 then (Coeff.var 0 : Option CoefT).map fun v => ⟨[v], 0⟩ else none
  | .add a b => do
      let x ← normLD a; let y ← normLD b
      if x.k = y.k then pure ⟨Poly.add x.p y.p, x.k⟩ else none
  | .sub a b =>
      if isOneMinusZ (.sub a b) then some ⟨constPoly 1, -1⟩ else do
      let x ← normLD a; let y ← normLD b
      if x.k = y.k then pure ⟨Poly.add x.p (Poly.neg y.p), x.k⟩ else none
  | .mul a b => do
      let x ← normLD a; let y ← normLD b
      pure ⟨Poly.mul x.p y.p, x.k + y.k⟩
  | .neg a => do let x ← normLD a; pure ⟨Poly.neg x.p, x.k⟩
  | .pow a n => do let x ← normLD a; pure ⟨Poly.pow x.p n, x.k * n⟩
  | .div a b => do
      let x ← normLD a; let y ← normLD b
      -- divisor must be `c · (1-z)^(-m)` with a non-zero rational constant `c`
      match (Coeff.constVal y.p : Option Rat) with
      | some c => if c = 0 then none else pure ⟨Poly.smul (Coeff.ofRat (1 / c)) x.p, x.k - y.k⟩
      | none => none
  | .log a => if isOneMinusZ a then some ⟨[Coeff.zero, Coeff.one], 0⟩ else none
  | _ => none

/-! ## The coefficient obligation between a singular part `a(L)/(1-z)` and a local part `b(L)` -/

/-- flatten a nested polynomial to its rational coefficients with their multi-degrees dropped:
comparison is coefficient by coefficient in the same positions -/
def ratClose (τ : Rat) (x y : Rat) : Bool := decide ((x - y).abs ≤ τ * y.abs)

/-- generic coefficient-wise closeness, zero-padding the shorter list -/
def listClose {α : Type} (close : α → α → Bool) (zero : α) : List α → List α → Bool
  | [], ys => ys.all fun y => close zero y
  | x :: xs, [] => close x zero && listClose close zero xs []
  | x :: xs, y :: ys => close x y && listClose close zero xs ys

def close1 (τ : Rat) : Poly Rat → Poly Rat → Bool := listClose (ratClose τ) 0
def close2 (τ : Rat) : Poly (Poly Rat) → Poly (Poly Rat) → Bool := listClose (close1 τ) []
def close3 (τ : Rat) : CoefT → CoefT → Bool := listClose (close2 τ) []
def closeL (τ : Rat) : PolyLA → PolyLA → Bool := listClose (close3 τ) []

/-- `d/dL` of a polynomial in `L` -/
def derivL : PolyLA → Nat → PolyLA
  | [], _ => []
  | _ :: rest, 0 => derivL rest 1
  | c :: rest, k + 1 => Coeff.mul (Coeff.ofRat ((k + 1 : Nat) : Rat)) c :: derivL rest (k + 2)

/-- the C03 obligation for a `(sing, loc)` pair inside the fragment: `sing = s(L)/(1-z)`,
`loc = l(L)`, and `dl/dL = s` coefficient by coefficient (relative tolerance `τ`) -/
def distributionOK (τ : Rat) (sing loc : KExpr) : Bool :=
  match normLD sing, normLD loc with
  | some s, some l => s.k == 1 && l.k == 0 && closeL τ (derivL l.p 0) s.p
  | _, _ => false

/-- a local part without singular part must not depend on `z` at all -/
def localIsConstant (loc : KExpr) : Bool := !loc.usesZ

end Yadism
