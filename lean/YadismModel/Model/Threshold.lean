/-
Heavy-quark thresholds (C09).

The guard expression, `_xi`, `_eta`, `labda` and the charged-current convolution point are
*generated* from the source as `KExpr` terms (`Generated/Threshold.lean`).  Here: an exact rational
evaluator for such terms (so that boundary points are decided exactly), comparison guards, and the
hand model of what surrounds the guard: the hadronic decorator, the guarded regular part, and the
early exits of `conv.convolution`.
-/
import YadismModel.Model.KExpr

namespace Yadism

structure QEnv where
  z : Rat
  params : String → Rat

/-- exact evaluation of the arithmetic fragment; `none`: division by zero or a transcendental -/
def KExpr.evalQ (env : QEnv) : KExpr → Option Rat
  | .lit q => some q
  | .z => some env.z
  | .param n => some (env.params n)
  | .add a b => do pure ((← evalQ env a) + (← evalQ env b))
  | .sub a b => do pure ((← evalQ env a) - (← evalQ env b))
  | .mul a b => do pure ((← evalQ env a) * (← evalQ env b))
  | .div a b => do
      let y ← evalQ env b
      if y = 0 then none else pure ((← evalQ env a) / y)
  | .neg a => do pure (- (← evalQ env a))
  | .pow a n => do pure ((← evalQ env a) ^ n)
  | _ => none

inductive Cmp where
  | le | lt | ge | gt
  deriving DecidableEq, Repr

def Cmp.holds : Cmp → Rat → Rat → Bool
  | .le, a, b => decide (a ≤ b)
  | .lt, a, b => decide (a < b)
  | .ge, a, b => decide (a ≥ b)
  | .gt, a, b => decide (a > b)

structure Guard where
  lhs : KExpr
  op : Cmp
  rhs : KExpr

/-- `none`: the guard expression itself is undefined (e.g. `z = 0`) -/
def Guard.holdsQ (g : Guard) (env : QEnv) : Option Bool := do
  pure (g.op.holds (← g.lhs.evalQ env) (← g.rhs.evalQ env))

def thrEnv (q2 m2 x z : Rat) : QEnv :=
  { z := z, params := fun n => if n = "Q2" then q2 else if n = "m2hq" then m2 else if n = "x" then x else 0 }

/-- the three parts of an `RSL`; `none` = absent -/
structure RslParts (α : Type) where
  reg : Option α
  sing : Option α
  loc : Option α

def RslParts.empty {α : Type} : RslParts α := ⟨none, none, none⟩

/-- `NeutralCurrentBase.decorator`: below the hadronic threshold (guard at `z = x`) the order is
replaced by the empty `RSL()` -/
def decorate {α : Type} (below : Bool) (p : RslParts α) : RslParts α := if below then RslParts.empty else p

/-- a guarded regular part: `if self.is_below_pair_threshold(z): return 0.0` before anything else -/
def guardedReg (below : Bool) (raw : Rat) : Rat := if below then 0 else raw

/-- `conv.convolution(rsl, point, pdf)`: the two early exits, then quadrature (a parameter: `quad`
is the value of the integral when there is a regular or singular part) plus the local term -/
def convolutionModel (eps point : Rat) (belowSupport : Bool) (p : RslParts Rat) (quad pdfAtX : Rat) : Rat :=
  if point ≥ 1 - eps then 0
  else if belowSupport then 0
  else (if p.reg.isSome || p.sing.isSome then quad else 0) + pdfAtX * (p.loc.getD 0)

/-- one operator entry as `compute_local` builds it: the channel's convolution point is used for
the convolution and as the overall factor -/
def operatorEntry (eps point : Rat) (belowSupport : Bool) (p : RslParts Rat) (quad pdfAtX weight : Rat) : Rat :=
  weight * (point * convolutionModel eps point belowSupport p quad pdfAtX)

/-- `esf.info.m2hq[ihq - 4]` -/
def massOf (m2 : List Rat) (ihq : Nat) : Option Rat := m2[ihq - 4]?

end Yadism
