/-
A small heap model of Python's object semantics, as far as "does this function write into an object
the caller can see?" is concerned (C20).

Objects (dicts, lists) live at locations; a card is a reference to a dict whose entries are atoms or
references to further (nested) objects.  `d.copy()` allocates a **new** object with the same entries:
nested objects stay shared with the original.  The statements are what `harness/translate_effects.py`
extracts from the syntax tree of `input/compatibility.py` (calls to functions of the same module are
inlined, every branch is kept: an over-approximation of what one execution does):

* `copy dst src`      – `dst = src.copy()` as an unconditional statement of the function body
* `write base`        – `base[k] = v`, `base[k] op= v`, `del base[k]`, `base.pop(k)`, `base.update(…)`, …:
                        an entry of the object `base` refers to is replaced / removed
* `writeNested base`  – `base[k1][k2] = v`, `base[k].append(v)`, …: an object *reachable from* `base`
                        is changed
* `alias dst`         – any other binding of a local name (`dst = src`, `dst = src[k]`, loop
                        variables, …): afterwards `dst` may refer to any object whatsoever

What a write stores, which key it touches, which branch is taken and which object an alias refers
to are not modelled: they are supplied by an arbitrary `Oracle`, and the theorem in
`Properties/C20.lean` holds for every oracle.
-/
namespace Yadism.Heap

inductive Val where
  | atom (n : Int)
  | ref (l : Nat)
  deriving DecidableEq, Repr, Inhabited

abbrev Obj := List (String × Val)

/-- location = index -/
abbrev Heap := List Obj

inductive Stmt where
  | copy (dst src : String)
  | write (base : String)
  | writeNested (base : String)
  | alias (dst : String)
  deriving DecidableEq, Repr, Inhabited

/-- local names → the location they refer to -/
abbrev Env := String → Option Nat

def Env.get? (e : Env) (v : String) : Option Nat := e v

def Env.set (e : Env) (v : String) (l : Nat) : Env := fun w => if w = v then some l else e w

/-- everything one execution decides that the syntax does not: for the `i`-th statement, whether it
runs at all (branches), the new content of the written object, the location a nested write reaches,
the location an alias refers to -/
structure Oracle where
  runs : Nat → Bool
  newObj : Nat → Obj → Obj
  nestedLoc : Nat → Nat
  aliasLoc : Nat → Nat

def setAt (h : Heap) (l : Nat) (o : Obj) : Heap := h.set l o

/-- one statement (numbered `i`).  A `copy` is only emitted by the translator for an *unconditional*
top-level statement of the function (a `.copy()` inside a branch or loop is emitted as `alias`), so
it always runs; every other statement runs or not as the oracle says -/
def step (orc : Oracle) (i : Nat) (s : Stmt) (st : Env × Heap) : Env × Heap :=
  match s with
  | .copy dst src =>
    match st.1.get? src with
    | some l => (st.1.set dst st.2.length, st.2 ++ [st.2.getD l []])
    | none => (st.1.set dst st.2.length, st.2 ++ [[]])
  | .write base =>
    if !orc.runs i then st else
    match st.1.get? base with
    | some l => (st.1, setAt st.2 l (orc.newObj i (st.2.getD l [])))
    | none => st
  | .writeNested _ =>
    if !orc.runs i then st else
    let l := orc.nestedLoc i
    (st.1, setAt st.2 l (orc.newObj i (st.2.getD l [])))
  | .alias dst =>
    if !orc.runs i then st else (st.1.set dst (orc.aliasLoc i), st.2)

def execFrom (orc : Oracle) : Nat → List Stmt → Env × Heap → Env × Heap
  | _, [], st => st
  | i, s :: rest, st => execFrom orc (i + 1) rest (step orc i s st)

def exec (orc : Oracle) (prog : List Stmt) (st : Env × Heap) : Env × Heap := execFrom orc 0 prog st

/-! ## the static check -/

/-- names bound by `.copy()` and not rebound since -/
def safeFrom : List String → List Stmt → Bool
  | _, [] => true
  | fresh, .copy dst _ :: rest => safeFrom (dst :: fresh) rest
  | fresh, .write base :: rest => fresh.contains base && safeFrom fresh rest
  | _, .writeNested _ :: _ => false
  | fresh, .alias dst :: rest => safeFrom (fresh.filter (· != dst)) rest

/-- every write goes, at depth 0, into an object that the function itself created by `.copy()` -/
def safe (prog : List Stmt) : Bool := safeFrom [] prog

end Yadism.Heap

namespace Yadism.Heap

/-- the names known to refer to objects of the program's own making after `prog` (what `safeFrom`
carries along) -/
def freshAfter : List String → List Stmt → List String
  | fresh, [] => fresh
  | fresh, .copy dst _ :: rest => freshAfter (dst :: fresh) rest
  | fresh, .write _ :: rest => freshAfter fresh rest
  | fresh, .writeNested _ :: rest => freshAfter fresh rest
  | fresh, .alias dst :: rest => freshAfter (fresh.filter (· != dst)) rest

/-- an object's life: its constructor, then any number of calls of its methods in any order.  The
check: the constructor is safe; every method is safe when started with the names the constructor
left fresh (`self.cache`, `self.esfs`, …), and leaves all of them fresh -/
def lifecycleSafe (init : List Stmt) (methods : List (List Stmt)) : Bool :=
  safe init && methods.all fun m =>
    safeFrom (freshAfter [] init) m && (freshAfter [] init).all fun v => (freshAfter (freshAfter [] init) m).contains v

end Yadism.Heap
