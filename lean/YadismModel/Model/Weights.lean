/-
Model of the parton-weight generators:
`light/kernels.py` (`nc_weights`, `nc_fl11_weights`), `kernels.py` (`cc_weights`, `cc_weights_even`,
`cc_weights_odd`), `heavy/kernels.py` (`nc_weights`), and the intrinsic `wp / wm` pairs.

A weight dictionary `{pid: w}` is modelled by the total function `pid ↦ w` (0 where the key is
absent): the only consumer, `compute_local`, reads `partons.get(pid, 0.0)`.
-/
import YadismModel.Model.Couplings

namespace Yadism

abbrev PMap := Int → Rat

def PMap.zero : PMap := fun _ => 0

/-- `br.flavor_basis_pids` -/
def flavorBasisPids : List Int := [22, -6, -5, -4, -3, -2, -1, 21, 1, 2, 3, 4, 5, 6]

def pidsUpTo (nf : Nat) : List Nat := (List.range nf).map (· + 1)

/-- `w(VV)+w(AA)` resp. `w(VA)+w(AV)` -/
def CC.wPair (c : CC) (q : Nat) (q2 : Rat) (isPV : Bool) : Rat :=
  if isPV then c.getWeightNC q q2 .VA + c.getWeightNC q q2 .AV
  else c.getWeightNC q q2 .VV + c.getWeightNC q q2 .AA

structure NCWeights where
  ns : PMap
  g : PMap
  s : PMap
  v : PMap

/-- the quarks that receive a non-singlet weight in `nc_weights` -/
def ncCoupled (nf : Nat) (skipHL : Bool) (q : Nat) : Bool :=
  decide (1 ≤ q) && decide (q ≤ nf) && !(skipHL && q == nf)

/-- `light.kernels.nc_weights` -/
def ncWeights (c : CC) (q2 : Rat) (nf : Nat) (isPV : Bool) (skipHL : Bool := false) : NCWeights :=
  let tot := listSum ((pidsUpTo nf).map fun q => if ncCoupled nf skipHL q then c.wPair q q2 isPV else 0)
  let chAv := tot / (nf : Rat)
  let ns : PMap := fun p =>
    if ncCoupled nf skipHL p.natAbs then
      (if isPV && decide (p < 0) then - c.wPair p.natAbs q2 isPV else c.wPair p.natAbs q2 isPV)
    else 0
  let inRange (p : Int) : Bool := decide (1 ≤ p.natAbs) && decide (p.natAbs ≤ nf)
  if isPV then
    { ns := ns, g := PMap.zero, s := PMap.zero,
      v := fun p => if inRange p then (if p < 0 then - chAv else chAv) else 0 }
  else
    { ns := ns, g := fun p => if p = 21 then chAv else 0,
      s := fun p => if inRange p then chAv else 0, v := PMap.zero }

structure Fl11Weights where
  q : PMap
  g : PMap

def CC.wFl11 (c : CC) (q : Nat) (q2 : Rat) (nf : Nat) : Rat :=
  c.getFl11Weight q q2 nf .VV + c.getFl11Weight q q2 nf .AA

/-- `light.kernels.nc_fl11_weights` -/
def ncFl11Weights (c : CC) (q2 : Rat) (nf : Nat) (skipHL : Bool := false) : Fl11Weights :=
  let tot := listSum ((pidsUpTo nf).map fun q => if ncCoupled nf skipHL q then c.wFl11 q q2 nf else 0)
  let chAv := tot / (nf : Rat)
  { q := fun p => if ncCoupled nf skipHL p.natAbs then c.wFl11 p.natAbs q2 nf else 0,
    g := fun p => if p = 21 then chAv else 0 }

/-- `rest` of the `cc_weights*` functions: 1 for `e+`/`nu`, 0 otherwise -/
def CC.rest (c : CC) : Nat := if c.ob.projectile = -11 ∨ c.ob.projectile = 12 then 1 else 0

/-- `sign = 1 if q % 2 == rest else -1` -/
def CC.ccSign (c : CC) (q : Nat) : Int := if q % 2 = c.rest then 1 else -1

/-- the loop bound `min(nf + 2, 7)` of the `cc_weights*` functions (exclusive) -/
def ccLoopTop (nf : Nat) : Nat := min (nf + 2) 7

/-- `tot_ch_sq` before any sign manipulation: sum of the weights of quarks `1 .. min(nf+1,6)` -/
def CC.ccTot (c : CC) (mask : Mask) (nf : Nat) : Rat :=
  listSum ((List.range (ccLoopTop nf - 1)).map fun i => c.getWeightCC (i+1) mask)

structure CCWeights where
  ns : PMap
  g : PMap
  s : PMap
  v : PMap

def sgnR (s : Int) : Rat := if s < 0 then -1 else 1

/-- `kernels.cc_weights` (used by the heavy, intrinsic and asy generators) -/
def ccWeights (c : CC) (mask : Mask) (nf : Nat) (isPV : Bool) : CCWeights :=
  let tot0 := c.ccTot mask nf
  let tot := if c.rest = 0 ∧ isPV then - tot0 else tot0
  let avg := tot / (mask.len : Rat) / 2
  -- key `sign*q` for `1 ≤ q ≤ nf`
  let hasKey (p : Int) : Bool :=
    decide (1 ≤ p.natAbs) && decide (p.natAbs ≤ nf) && decide (p = c.ccSign p.natAbs * (p.natAbs : Int))
  { ns := fun p => if hasKey p then
            (if isPV then sgnR (c.ccSign p.natAbs) * c.getWeightCC p.natAbs mask else c.getWeightCC p.natAbs mask)
          else 0,
    g := fun p => if p = 21 then avg else 0,
    -- the singlet keys are `q` and `-q` for every key `q` of `ns`
    s := fun p => if decide (1 ≤ p.natAbs) && decide (p.natAbs ≤ nf) then avg else 0,
    v := PMap.zero }

/-- `kernels.cc_weights_even` -/
def ccWeightsEven (c : CC) (mask : Mask) (nf : Nat) (isPV : Bool) : CCWeights :=
  let tot := c.ccTot mask nf
  let avg := tot / (mask.len : Rat) / 2
  let inRange (p : Int) : Bool := decide (1 ≤ p.natAbs) && decide (p.natAbs ≤ nf)
  { ns := fun p => if inRange p then
            c.getWeightCC p.natAbs mask / 2 * (if isPV then sgnR (c.ccSign p.natAbs) else 1)
          else 0,
    g := fun p => if p = 21 then avg else 0,
    s := fun p => if inRange p then avg else 0,
    v := PMap.zero }

/-- `kernels.cc_weights_odd` -/
def ccWeightsOdd (c : CC) (mask : Mask) (nf : Nat) (isPV : Bool) : CCWeights :=
  let tot := c.ccTot mask nf
  let avg := tot / (mask.len : Rat) / 2
  let inRange (p : Int) : Bool := decide (1 ≤ p.natAbs) && decide (p.natAbs ≤ nf)
  { ns := fun p => if inRange p then
            -- key `sign*q` gets `+w/2·f`, key `-sign*q` gets `-w/2·f`
            (if p = c.ccSign p.natAbs * (p.natAbs : Int) then 1 else -1)
              * (c.getWeightCC p.natAbs mask / 2 * (if isPV then sgnR (c.ccSign p.natAbs) else 1))
          else 0,
    g := PMap.zero,
    s := PMap.zero,
    v := fun p => if inRange p then (if p < 0 then - avg else avg) else 0 }

structure HeavyNCWeights where
  gVV : PMap
  gAA : PMap
  sVV : PMap
  sAA : PMap

/-- `heavy.kernels.nc_weights` (parity conserving only; `{}` otherwise) -/
def heavyNCWeights (c : CC) (q2 : Rat) (nf : Nat) (ihq : Nat) : HeavyNCWeights :=
  let wvv := c.getWeightNC ihq q2 .VV
  let waa := c.getWeightNC ihq q2 .AA
  let inRange (p : Int) : Bool := decide (1 ≤ p.natAbs) && decide (p.natAbs ≤ nf)
  { gVV := fun p => if p = 21 then wvv else 0,
    gAA := fun p => if p = 21 then waa else 0,
    sVV := fun p => if inRange p then wvv else 0,
    sAA := fun p => if inRange p then waa else 0 }

end Yadism
