/-
Model of the request/caching layer: `StructureFunction.get_esf / drop_cache / load`,
`Runner.get_sf / drop_cache`, the evaluation order of `Runner.get_result` (`runner.py`, `sf.py`,
`xs.py`) and the local memo of `EvaluatedStructureFunction` (`esf/esf.py`).

What an ESF object *computes* is a parameter (`compute`): a deterministic function of what the
object was constructed with.  The model tracks which object every request returns.
-/
namespace Yadism.Cache

/-- names that occur in kinematics dicts; `sorted()` orders them `Q2 < x < y` -/
inductive KName where
  | Q2 | x | y
  deriving DecidableEq, Repr

def KName.rank : KName → Nat
  | .Q2 => 0 | .x => 1 | .y => 2

/-- a kinematics dict in insertion order -/
abbrev Kin := List (KName × Rat)

def Kin.get? (k : Kin) (n : KName) : Option Rat := (k.find? fun e => e.1 = n).map (·.2)

/-- the dict is well formed for a request: distinct names, `x` and `Q2` present -/
def Kin.wf (k : Kin) : Bool :=
  (k.map (·.1)).Nodup && (k.get? .x).isSome && (k.get? .Q2).isSome

/-- `[kinematics[name] for name in sorted(kinematics)]` -/
def Kin.sortedValues (k : Kin) : List Rat :=
  ([KName.Q2, .x, .y].filterMap fun n => k.get? n)

/-- the physical point a dict denotes -/
structure Point where
  x : Rat
  q2 : Rat
  y : Option Rat
  deriving DecidableEq, Repr

def Kin.point (k : Kin) : Point :=
  { x := (k.get? .x).getD 0, q2 := (k.get? .Q2).getD 0, y := k.get? .y }

/-- cache key: sorted values + `use_tmc_if_available` -/
structure Key where
  vals : List Rat
  flag : Bool
  deriving DecidableEq, Repr

/-- what an ESF-like object was constructed with: observable, point, and whether it is the
TMC-corrected class -/
structure Obj where
  obs : Nat
  pt : Point
  tmc : Bool
  deriving DecidableEq, Repr

/-- one `get_esf(obs, kinematics, use_raw=…)` request as it reaches the owning SF -/
structure Req where
  obs : Nat
  kin : Kin
  useRaw : Bool
  deriving Repr

/-- `use_tmc_if_available = not use_raw and TMC != 0` -/
def Req.flag (tmcOn : Bool) (r : Req) : Bool := !r.useRaw && tmcOn

def Req.key (tmcOn : Bool) (r : Req) : Key := ⟨r.kin.sortedValues, r.flag tmcOn⟩

/-- the object a fresh construction yields -/
def Req.fresh (tmcOn : Bool) (r : Req) : Obj := ⟨r.obs, r.kin.point, r.flag tmcOn⟩

/-- per-observable caches: observable id ↦ association list key ↦ object -/
abbrev State := Nat → List (Key × Obj)

def State.empty : State := fun _ => []

def State.cacheOf (s : State) (obs : Nat) : List (Key × Obj) := s obs

def State.setCache (s : State) (obs : Nat) (c : List (Key × Obj)) : State :=
  fun o => if o = obs then c else s o

def lookup (c : List (Key × Obj)) (k : Key) : Option Obj := (c.find? fun e => e.1 = k).map (·.2)

inductive Op where
  | get (r : Req)
  /-- `Runner.drop_cache()` -/
  | drop

/-- one step: returns the new state and, for `get`, the object handed back -/
def step (tmcOn : Bool) (s : State) : Op → State × Option Obj
  | .get r =>
    let c := s.cacheOf r.obs
    match lookup c (r.key tmcOn) with
    | some o => (s, some o)
    | none =>
      let o := r.fresh tmcOn
      (s.setCache r.obs (c ++ [(r.key tmcOn, o)]), some o)
  | .drop => (State.empty, none)

def run (tmcOn : Bool) : State → List Op → State × List (Option Obj)
  | s, [] => (s, [])
  | s, op :: ops =>
    let (s', o) := step tmcOn s op
    let (s'', os) := run tmcOn s' ops
    (s'', o :: os)

/-! ## Evaluation order of `Runner.get_result` -/

/-- insertion sort by `Q2`, stable (Python's `sorted` is stable) — on `(original index, Q2)` -/
def insertByQ2 (e : Nat × Rat) : List (Nat × Rat) → List (Nat × Rat)
  | [] => [e]
  | h :: t => if e.2 ≤ h.2 then e :: h :: t else h :: insertByQ2 e t

def sortByQ2 (l : List (Nat × Rat)) : List (Nat × Rat) := l.foldr insertByQ2 []

/-- the order in which the points of one observable are evaluated, and where a cache drop
happens (`true` = drop before this element): `(drop?, original index)` -/
def evalPlan (q2s : List Rat) : List (Bool × Nat) :=
  let sorted := sortByQ2 (q2s.zipIdx.map fun (q, i) => (i, q))
  let rec go (prev : Option Rat) : List (Nat × Rat) → List (Bool × Nat)
    | [] => []
    | (i, q) :: rest => ((match prev with | some p => decide (p ≠ q) | none => false), i) :: go (some q) rest
  go none sorted

/-- `results[idx] = elem.get_result()` over the plan: the value stored at each original index -/
def placeResults {α} (n : Nat) (plan : List (Bool × Nat)) (valueOf : Nat → α) : List (Option α) :=
  (List.range n).map fun i => if plan.any (fun p => p.2 = i) then some (valueOf i) else none

end Yadism.Cache
