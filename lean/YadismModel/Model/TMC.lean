/-
Target mass corrections (`yadism/esf/tmc.py`).

The arithmetic of the prefactors is *generated* from the source (`Generated/TMC.lean`, terms of
`KExpr` over the params `x Q2 M2 mu rho xi`).  This file holds what is modelled by hand:
* the symbols a formula is linear in (`TSym`),
* the loop of `_convolve_FX` (domain check, skipping of basis functions below `xi`, weighted sum),
* the assembly of a result from coefficients and the values of the symbols (`assemble`).
-/
import YadismModel.Model.KExpr

namespace Yadism

/-- what a TMC formula is linear in -/
inductive TSym where
  /-- the uncorrected structure function `kind` at the shifted point `(xi, Q2)` -/
  | shift (kind : String)
  /-- `_convolve_FX(kind, ker)`: `Σ_j (ker ⊗ p_j)(xi) · F_kind(x_j)` -/
  | conv (kind : String) (kerName : String) (ker : KExpr)
  deriving Repr, Inhabited

def TSym.name : TSym → String
  | .shift k => "shift:" ++ k
  | .conv k n _ => "conv:" ++ k ++ ":" ++ n

def listSumQ : List Rat → Rat
  | [] => 0
  | a :: l => a + listSumQ l

/-- `_convolve_FX`: `none` = the explicit "xi outside xgrid" error.
`below j` is `pj.is_below_x(xi)`, `w j` the convolution of the kernel with basis function `j`,
`F j` (one entry of) the uncorrected result at grid node `j`. -/
def convolveFX (grid : List Rat) (below : Nat → Bool) (w F : Nat → Rat) (xi : Rat) : Option Rat :=
  if grid.all (fun g => decide (xi < g)) then none
  else some (listSumQ ((List.range grid.length).map fun j => if below j then 0 else w j * F j))

/-- an uncorrected request at `(x, Q2)`: the guards of `EvaluatedStructureFunction.__init__` -/
def esfRequest (grid : List Rat) (x q2 : Rat) (value : Rat) : Option Rat :=
  if x > 1 ∨ x ≤ 0 then none
  else if q2 ≤ 0 then none
  else if grid.all (fun g => decide (x < g)) then none
  else some value

/-- a result from evaluated coefficients and symbol values; `none` as soon as one request is
rejected -/
def assemble : List (Rat × Option Rat) → Option Rat
  | [] => some 0
  | (c, v) :: rest =>
    match v, assemble rest with
    | some v, some r => some (c * v + r)
    | _, _ => none

/-- the guards of `EvaluatedStructureFunctionTMC.__init__` -/
def tmcInitOk (x q2 : Rat) : Bool := !(decide (x > 1) || decide (x ≤ 0)) && !(decide (q2 ≤ 0))

end Yadism
