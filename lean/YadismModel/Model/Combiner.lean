/-
Model of `coefficient_functions/__init__.py` (`Combiner`) and of the kernel generators
`light/kernels.py: generate`, `kernels.py: generate_single_flavor_light`,
`heavy/kernels.py: generate, generate_missing`, `intrinsic/kernels.py: generate`,
`asy/kernels.py: generate_missing_asy, generate_heavy_asy, generate_intrinsic_asy`.

A kernel is (which partonic-channel class, constructed with which `nf` and which heavy quark) plus
its parton weights.  What the class *computes* is not part of this model: it is a parameter
`conv` of the operator (see `Operator.lean`).
-/
import YadismModel.Model.Weights

namespace Yadism

inductive Kind where
  | F2 | FL | F3 | g1 | gL | g4
  deriving DecidableEq, Repr, Inhabited

def Kind.isPV : Kind → Bool
  | .F3 | .gL | .g4 => true
  | _ => false

inductive Flavor where
  | light | total | charm | bottom | top | charmlight | bottomlight | toplight
  deriving DecidableEq, Repr, Inhabited

inductive Family where
  | light | total | heavy
  deriving DecidableEq, Repr

/-- `ObservableName.flavor_family` -/
def Flavor.family : Flavor → Family
  | .charm | .bottom | .top => .heavy
  | .total => .total
  | _ => .light

/-- `ObservableName.hqnumber` -/
def Flavor.hqnumber : Flavor → Nat
  | .charm | .charmlight => 4
  | .bottom | .bottomlight => 5
  | .top | .toplight => 6
  | _ => 0

inductive Parts where
  | massless | massive | full
  deriving DecidableEq, Repr, Inhabited

/-- identifies the partonic-channel object: sub-package, class name, first constructor
argument (`nf`, or `ihq-1` for intrinsic), and the heavy quark whose mass is passed (0: none) -/
structure ChanId where
  family : String
  cls : String
  nfArg : Nat
  ihq : Nat
  deriving DecidableEq, Repr, Inhabited

structure Kernel where
  chan : ChanId
  partons : PMap

/-- everything the kernel generators read from the ESF and its configuration, except the
requested flavour and the FONLL parts (which only `Combiner.collect` looks at) -/
structure Env where
  kind : Kind
  cc : CC
  q2 : Rat
  /-- `nf_default(Q2, atlas)` -/
  nf : Nat
  /-- `ZMc, ZMb, ZMt` -/
  zmc : Bool
  zmb : Bool
  zmt : Bool
  /-- `"FFN0" in scheme` -/
  ffn0 : Bool
  pto : Nat
  ptoEvol : Nat
  z : Rat
  a : Rat
  deriving Inhabited

/-- `Combiner.masses[ihq] = not ZMq` for ihq = 4,5,6; absent otherwise -/
def Env.massive (e : Env) (ihq : Nat) : Bool :=
  match ihq with
  | 4 => !e.zmc
  | 5 => !e.zmb
  | 6 => !e.zmt
  | _ => false

def Env.isPV (e : Env) : Bool := e.kind.isPV
def Env.isCC (e : Env) : Bool := e.cc.ob.process == .CC

def mk (family cls : String) (nfArg ihq : Nat) (w : PMap) : Kernel :=
  { chan := ⟨family, cls, nfArg, ihq⟩, partons := w }

/-- `light.kernels.generate(esf, nf)` -/
def genLight (e : Env) (nf : Nat) : List Kernel :=
  if e.isCC then
    let we := ccWeightsEven e.cc (Mask.light nf) nf e.isPV
    let wo := ccWeightsOdd e.cc (Mask.light nf) nf e.isPV
    if e.isPV then
      [mk "light" "NonSingletEven" nf 0 we.ns, mk "light" "NonSingletOdd" nf 0 wo.ns,
       mk "light" "Valence" nf 0 wo.v]
    else
      [mk "light" "NonSingletEven" nf 0 we.ns, mk "light" "Gluon" nf 0 we.g,
       mk "light" "Singlet" nf 0 we.s, mk "light" "NonSingletOdd" nf 0 wo.ns]
  else
    let w := ncWeights e.cc e.q2 nf e.isPV
    if e.isPV then
      [mk "light" "NonSinglet" nf 0 w.ns, mk "light" "Valence" nf 0 w.v]
    else
      let base := [mk "light" "NonSinglet" nf 0 w.ns, mk "light" "Gluon" nf 0 w.g,
                   mk "light" "Singlet" nf 0 w.s]
      if e.pto = 3 then
        let f := ncFl11Weights e.cc e.q2 nf
        base ++ [mk "light" "QuarkFL11" nf 0 f.q, mk "light" "GluonFL11" nf 0 f.g]
      else base

/-- `heavy.kernels.generate_missing(esf, nf, ihq)` -/
def genMissing (e : Env) (nf ihq : Nat) : List Kernel :=
  if e.isCC then [] else
  [mk "heavy" "NonSinglet" nf ihq (ncWeights e.cc e.q2 nf e.isPV).ns]

def asyName (res : Nat) (channel : String) : String :=
  "Asy" ++ String.ofList (List.replicate res 'N') ++ "LL" ++ channel

/-- `asy.kernels.generate_missing_asy(esf, nf, ihq, pto_evol)` -/
def genMissingAsy (e : Env) (nf ihq : Nat) : List Kernel :=
  if e.isCC then [] else
  let w := (ncWeights e.cc e.q2 nf e.isPV).ns
  (List.range (e.ptoEvol + 1)).map fun res => mk "asy" (asyName res "NonSinglet") nf ihq w

/-- `kernels.generate_single_flavor_light(esf, nf, ihq)` -/
def genSingleFlavorLight (e : Env) (nf ihq : Nat) : List Kernel :=
  let nfR : Rat := (nf : Rat)
  if e.isCC then
    let we := ccWeightsEven e.cc (Mask.single ihq) nf e.isPV
    let wo := ccWeightsOdd e.cc (Mask.single ihq) nf e.isPV
    if e.isPV then
      [mk "light" "NonSingletEven" nf 0 we.ns, mk "light" "NonSingletOdd" nf 0 wo.ns,
       mk "light" "Valence" nf 0 (fun p => wo.v p / nfR)]
    else
      [mk "light" "NonSingletEven" nf 0 we.ns,
       mk "light" "Gluon" nf 0 (fun p => we.g p / nfR),
       mk "light" "Singlet" nf 0 (fun p => we.s p / nfR),
       mk "light" "NonSingletOdd" nf 0 wo.ns]
  else
    let w := e.cc.wPair ihq e.q2 e.isPV
    let chAv := w / nfR
    let inRange (p : Int) : Bool := decide (1 ≤ p.natAbs) && decide (p.natAbs ≤ nf)
    let ns : PMap := fun p =>
      if p = (ihq : Int) then w else if p = -(ihq : Int) then (if e.isPV then -w else w) else 0
    if e.isPV then
      [mk "light" "NonSinglet" nf 0 ns,
       mk "light" "Valence" nf 0 (fun p => if inRange p then (if p < 0 then -chAv else chAv) else 0)]
    else
      let base := [mk "light" "NonSinglet" nf 0 ns,
                   mk "light" "Gluon" nf 0 (fun p => if p = 21 then chAv else 0),
                   mk "light" "Singlet" nf 0 (fun p => if inRange p then chAv else 0)]
      if e.pto = 3 then
        let wf := e.cc.wFl11 ihq e.q2 nf
        base ++ [mk "light" "QuarkFL11" nf 0 (fun p => if p.natAbs = ihq then wf else 0),
                 mk "light" "GluonFL11" nf 0 (fun p => if p = 21 then wf / nfR else 0)]
      else base

/-- `heavy.kernels.generate(esf, nf, ihq)` -/
def genHeavy (e : Env) (nf ihq : Nat) : List Kernel :=
  if e.isCC then
    let w := ccWeights e.cc (Mask.single ihq) nf e.isPV
    [mk "heavy" "NonSinglet" nf ihq w.ns, mk "heavy" "Gluon" nf ihq w.g]
  else if e.isPV then []
  else
    let w := heavyNCWeights e.cc e.q2 nf ihq
    [mk "heavy" "GluonVV" nf ihq w.gVV, mk "heavy" "GluonAA" nf ihq w.gAA,
     mk "heavy" "SingletVV" nf ihq w.sVV, mk "heavy" "SingletAA" nf ihq w.sAA]

/-- the intrinsic weights restricted to `±ihq`: `(wp-map, wm-map)` -/
def intrinsicWeights (e : Env) (ihq : Nat) : PMap × PMap :=
  if e.isCC then
    let w := ccWeights e.cc (Mask.single ihq) ihq e.isPV
    (fun p => if p.natAbs = ihq then w.ns p else 0, PMap.zero)
  else if e.isPV then
    let wVA := e.cc.getWeightNC ihq e.q2 .VA
    let wAV := e.cc.getWeightNC ihq e.q2 .AV
    let wp := wVA + wAV
    let wm := wVA - wAV
    (fun p => if p = (ihq : Int) then wp else if p = -(ihq : Int) then -wp else 0,
     fun p => if p = (ihq : Int) then wm else if p = -(ihq : Int) then -wm else 0)
  else
    let wVV := e.cc.getWeightNC ihq e.q2 .VV
    let wAA := e.cc.getWeightNC ihq e.q2 .AA
    let wp := wVV + wAA
    let wm := wVV - wAA
    (fun p => if p.natAbs = ihq then wp else 0, fun p => if p.natAbs = ihq then wm else 0)

/-- `intrinsic.kernels.generate(esf, ihq)` -/
def genIntrinsic (e : Env) (ihq : Nat) : List Kernel :=
  let (wp, wm) := intrinsicWeights e ihq
  if e.isCC then
    [mk "intrinsic" (if e.isPV then "Rplus" else "Splus") (ihq - 1) ihq wp]
  else if e.isPV then
    [mk "intrinsic" "Rplus" (ihq - 1) ihq wp, mk "intrinsic" "Rminus" (ihq - 1) ihq wm]
  else
    [mk "intrinsic" "Splus" (ihq - 1) ihq wp, mk "intrinsic" "Sminus" (ihq - 1) ihq wm]

/-- `asy.kernels.generate_intrinsic_asy(esf, nf, pto_evol, ihq)` -/
def genIntrinsicAsy (e : Env) (nf ihq : Nat) : List Kernel :=
  let w := (intrinsicWeights e ihq).1
  let base := [mk "asy" "AsyLLIntrinsic" nf ihq w]
  if e.ptoEvol > 0 then
    base ++ [mk "asy" "AsyNLLIntrinsicMatching" nf ihq w, mk "asy" "AsyNLLIntrinsicLight" nf ihq w]
  else base

/-- `asy.kernels.generate_heavy_asy(esf, nf, pto_evol, ihq)` -/
def genHeavyAsy (e : Env) (nf ihq : Nat) : List Kernel :=
  if e.isCC then
    let w := ccWeights e.cc (Mask.single ihq) nf e.isPV
    [mk "asy" "AsyQuark" nf ihq w.ns, mk "asy" "AsyGluon" nf ihq w.g]
  else if e.isPV then []
  else
    let w := heavyNCWeights e.cc e.q2 nf ihq
    let chan (channel : String) (wAA wVV : PMap) : List Kernel :=
      ((List.range (e.ptoEvol + 1)).map fun res =>
        [mk "asy" (asyName res channel) nf ihq wAA, mk "asy" (asyName res channel) nf ihq wVV]).flatten
    chan "Gluon" w.gAA w.gVV ++ chan "Singlet" w.sAA w.sVV

/-- `Combiner.light_component` -/
def lightComponent (e : Env) : List Kernel :=
  let nf := e.nf
  genLight e nf ++
    (((List.range (6 - nf)).map fun i =>
      let ihq := nf + 1 + i
      if e.massive ihq then (if e.ffn0 then genMissingAsy e nf ihq else genMissing e nf ihq) else []).flatten)

/-- `Combiner.heavylight_components` (`hq = obs_name.hqnumber`) -/
def heavylightComponents (e : Env) (hq : Nat) : List Kernel :=
  let nf := e.nf
  if hq < nf ∨ (hq = nf ∧ !e.massive hq) then genSingleFlavorLight e nf hq else []

/-- the contribution of the massive quark `sfh` to `Combiner.heavy_components` -/
def heavyPiece (e : Env) (sfh : Nat) : List Kernel :=
  (if e.ffn0 then genIntrinsicAsy e e.nf sfh else genIntrinsic e sfh) ++
  (if e.ffn0 then genHeavyAsy e e.nf sfh else genHeavy e e.nf sfh)

/-- `Combiner.heavy_components` (`hq = obs_name.hqnumber`, 0 for `total`) -/
def heavyComponents (e : Env) (hq : Nat) : List Kernel :=
  let nf := e.nf
  ((List.range (7 - nf)).map fun i =>
    let sfh := nf + i
    if !e.massive sfh then []
    else if hq ≠ 0 ∧ hq ≠ sfh then []
    else heavyPiece e sfh).flatten

/-- `Combiner.collect` (components flattened) -/
def collect (e : Env) (flavor : Flavor) (parts : Parts) : List Kernel :=
  let fam := flavor.family
  let hq := flavor.hqnumber
  let l1 := if (fam = .light ∨ fam = .total) ∧ (parts = .massless ∨ parts = .full)
            then lightComponent e else []
  let l2 := if fam = .heavy ∧ (parts = .massless ∨ parts = .full)
            then heavylightComponents e hq else []
  let l3 := if (fam = .heavy ∨ fam = .total) ∧ (parts = .massive ∨ parts = .full)
            then heavyComponents e hq else []
  l1 ++ l2 ++ l3

/-- `Combiner.apply_isospin` on one weight map -/
def isospin (z a : Rat) (w : PMap) : PMap := fun p =>
  if p = 1 ∨ p = -1 then (z * w p + (a - z) * w (2 * p)) / a
  else if p = 2 ∨ p = -2 then ((a - z) * w (p / 2) + z * w p) / a
  else w p

def Kernel.isospin (z a : Rat) (k : Kernel) : Kernel := { k with partons := Yadism.isospin z a k.partons }

/-- `Combiner.collect_elems` without the final `drop_empty` (dropping zero-weight entries does not
change any operator; the driver prints weights on the 14-pid basis and the harness treats an
absent kernel and an all-zero kernel alike) -/
def collectElems (e : Env) (flavor : Flavor) (parts : Parts) : List Kernel :=
  (collect e flavor parts).map (Kernel.isospin e.z e.a)

end Yadism
