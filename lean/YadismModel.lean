import YadismModel.Model.Proto
import YadismModel.Model.Couplings
import YadismModel.Model.Weights
import YadismModel.Model.Combiner
import YadismModel.Model.Compat
import YadismModel.Model.Operator
import YadismModel.Model.Orders
import YadismModel.Model.XS
