import YadismModel.Model.Proto
import YadismModel.Model.Couplings
import YadismModel.Model.Weights
import YadismModel.Model.Combiner
